import PatVerif.Model.Recode

/-!
# The scalar digit recodings: the literal models equal their number-level specifications

All four theorems of the task are proved (core Lean only, no Mathlib import, no `sorry`):

* `signedRadix16_eq_spec`, `signedRadix16_spec` (PART A);
* `nonAdjacentForm_eq_spec`, `nonAdjacentForm_spec` (PART B), as instances of the general forms
  `nonAdjacentForm_eq_spec'`, `nonAdjacentForm_spec'` for every width `2 ≤ w ≤ 8`.

Route of PART B: `words_eq` (the five 64-bit words are `N / 2^(64 i) % 2^64`), `window_eq` (the shift/or window extraction is
`N / 2^pos % 2^w`, by `Nat.testBit`), `nafLoop_eq` (fuel induction: the loop writes `nafSpec` digit by digit; a written digit and the
`w - 1` skipped zeros are `w` steps of `nafSpec`, `nafSpec_two_pow_mul`), then `nafSpec_length`, `nafSpec_digit`, `nafSpec_eval`
(value, under `0 ≤ r ∧ 2 r ≤ 2^n`) on the specification. Nothing is missing.
-/

namespace PatVerif.Proofs.Recode
open PatVerif.Model.Recode

/-- a scalar as the Go code holds it: 32 bytes, top bit clear -/
def IsScalar (s : List Nat) : Prop := s.length = 32 ∧ (∀ b ∈ s, b < 256) ∧ s.getD 31 0 ≤ 127

instance (s : List Nat) : Decidable (IsScalar s) := by unfold IsScalar; infer_instance

/-! ## PART A: signed radix 16 -/

theorem wrap8_id (x : Int) (h1 : -128 ≤ x) (h2 : x ≤ 127) : wrap8 x = x := by
  unfold wrap8; omega

theorem evalDigits_cons (k : Nat) (d : Int) (ds : List Int) :
    evalDigits k (d :: ds) = d + (2 : Int) ^ k * evalDigits k ds := rfl

/-- the literal recentering loop is the number-level signed radix-16 expansion -/
theorem recenter_eq_spec (ds : List Int) : ∀ (d c : Int), (0 ≤ d ∧ d ≤ 15) → (∀ x ∈ ds, 0 ≤ x ∧ x ≤ 15) → (c = 0 ∨ c = 1) →
    recenter c (d :: ds) = radix16Spec ds.length (c + evalDigits 4 (d :: ds)) := by
  induction ds with
  | nil =>
    intro d c hd _ hc
    simp only [recenter, radix16Spec, evalDigits, List.length_nil]
    rw [wrap8_id _ (by omega) (by omega)]
    congr 1; omega
  | cons d' ds ih =>
    intro d c hd hds hc
    have hd' := hds d' (by simp)
    have hds' : ∀ x ∈ ds, 0 ≤ x ∧ x ≤ 15 := fun x hx => hds x (by simp [hx])
    simp only [recenter, radix16Spec, List.length_cons]
    rw [wrap8_id (d + c) (by omega) (by omega)]
    rw [wrap8_id (d + c + 8) (by omega) (by omega)]
    have hcar : (d + c + 8) / 16 = 0 ∨ (d + c + 8) / 16 = 1 := by omega
    rw [wrap8_id ((d + c + 8) / 16 * 16) (by omega) (by omega)]
    rw [wrap8_id _ (by omega) (by omega)]
    rw [ih d' ((d + c + 8) / 16) hd' hds' hcar]
    rw [evalDigits_cons 4 d (d' :: ds)]
    generalize evalDigits 4 (d' :: ds) = E
    have h16 : (2 : Int) ^ 4 = 16 := by decide
    rw [h16]
    congr 1
    · omega
    · congr 1; omega

theorem radix16Spec_length : ∀ (n : Nat) (r : Int), (radix16Spec n r).length = n + 1 := by
  intro n; induction n with
  | zero => intro r; rfl
  | succ n ih => intro r; simp [radix16Spec, ih]

theorem radix16Spec_eval : ∀ (n : Nat) (r : Int), evalDigits 4 (radix16Spec n r) = r := by
  intro n; induction n with
  | zero => intro r; simp [radix16Spec, evalDigits]
  | succ n ih =>
    intro r
    simp only [radix16Spec, evalDigits_cons, ih]
    have h16 : (2 : Int) ^ 4 = 16 := by decide
    rw [h16]; omega

theorem radix16Spec_digit : ∀ (n : Nat) (r : Int) (i : Nat), i < n →
    -8 ≤ (radix16Spec n r).getD i 0 ∧ (radix16Spec n r).getD i 0 < 8 := by
  intro n; induction n with
  | zero => intro r i hi; omega
  | succ n ih =>
    intro r i hi
    cases i with
    | zero => simp only [radix16Spec, List.getD_cons_zero]; omega
    | succ i => simp only [radix16Spec, List.getD_cons_succ]; exact ih _ i (by omega)

/-- the last digit of the recentred list is the last input digit plus a carry -/
theorem recenter_last (ds : List Int) : ∀ (d c : Int), (0 ≤ d ∧ d ≤ 15) → (∀ x ∈ ds, 0 ≤ x ∧ x ≤ 15) → (c = 0 ∨ c = 1) →
    (d :: ds).getD ds.length 0 ≤ (recenter c (d :: ds)).getD ds.length 0 ∧
      (recenter c (d :: ds)).getD ds.length 0 ≤ (d :: ds).getD ds.length 0 + 1 := by
  induction ds with
  | nil =>
    intro d c hd _ hc
    simp only [recenter, List.length_nil, List.getD_cons_zero]
    rw [wrap8_id _ (by omega) (by omega)]; omega
  | cons d' ds ih =>
    intro d c hd hds hc
    have hd' := hds d' (by simp)
    have hds' : ∀ x ∈ ds, 0 ≤ x ∧ x ≤ 15 := fun x hx => hds x (by simp [hx])
    simp only [recenter, List.length_cons, List.getD_cons_succ]
    rw [wrap8_id (d + c) (by omega) (by omega)]
    rw [wrap8_id (d + c + 8) (by omega) (by omega)]
    exact ih d' ((d + c + 8) / 16) hd' hds' (by omega)

theorem nibbles_length : ∀ (bs : List Nat), (nibbles bs).length = 2 * bs.length := by
  intro bs; induction bs with
  | nil => rfl
  | cons b bs ih => simp [nibbles, ih]; omega

theorem nibbles_mem : ∀ (bs : List Nat), ∀ x ∈ nibbles bs, 0 ≤ x ∧ x ≤ 15 := by
  intro bs; induction bs with
  | nil => intro x hx; simp [nibbles] at hx
  | cons b bs ih =>
    intro x hx
    simp only [nibbles, List.mem_cons] at hx
    rcases hx with rfl | rfl | hx
    · omega
    · omega
    · exact ih x hx

theorem nibbles_eval : ∀ (bs : List Nat), (∀ b ∈ bs, b < 256) → evalDigits 4 (nibbles bs) = (leNat bs : Int) := by
  intro bs; induction bs with
  | nil => intro _; rfl
  | cons b bs ih =>
    intro h
    have hb := h b (by simp)
    have ih' := ih (fun x hx => h x (by simp [hx]))
    simp only [nibbles, evalDigits_cons, leNat, ih']
    have h16 : (2 : Int) ^ 4 = 16 := by decide
    rw [h16]; generalize leNat bs = L; omega

theorem nibbles_getD_odd : ∀ (bs : List Nat) (i : Nat),
    (nibbles bs).getD (2 * i + 1) 0 = ((bs.getD i 0 / 16 % 16 : Nat) : Int) := by
  intro bs; induction bs with
  | nil => intro i; simp [nibbles]
  | cons b bs ih =>
    intro i
    cases i with
    | zero => simp [nibbles]
    | succ i =>
      have : 2 * (i + 1) + 1 = (2 * i + 1) + 1 + 1 := by omega
      rw [this]
      simp only [nibbles, List.getD_cons_succ]
      exact ih i

theorem nibbles_cons_of_scalar (s : List Nat) (h : IsScalar s) :
    ∃ d ds, nibbles s = d :: ds ∧ ds.length = 63 := by
  have hl := nibbles_length s
  rw [h.1] at hl
  match hn : nibbles s, hl with
  | d :: ds, hl => exact ⟨d, ds, rfl, by simpa using hl⟩

theorem signedRadix16_eq_spec (s : List Nat) (h : IsScalar s) :
    signedRadix16 s = some (radix16Spec 63 (leNat s : Int)) := by
  obtain ⟨d, ds, hn, hlen⟩ := nibbles_cons_of_scalar s h
  have hmem := nibbles_mem s
  rw [hn] at hmem
  have heval := nibbles_eval s h.2.1
  unfold signedRadix16
  rw [if_neg (by have := h.2.2; omega), hn]
  rw [recenter_eq_spec ds d 0 (hmem d (by simp)) (fun x hx => hmem x (by simp [hx])) (Or.inl rfl)]
  rw [hlen, ← hn, heval]; simp

example : signedRadix16 (List.replicate 31 255 ++ [127]) =
    some (radix16Spec 63 (leNat (List.replicate 31 255 ++ [127]) : Int)) :=
  signedRadix16_eq_spec _ (by decide)

theorem signedRadix16_spec (s : List Nat) (h : IsScalar s) :
    ∃ ds, signedRadix16 s = some ds ∧ ds.length = 64 ∧ evalDigits 4 ds = (leNat s : Int) ∧
      (∀ i, i < 63 → -8 ≤ ds.getD i 0 ∧ ds.getD i 0 < 8) ∧ 0 ≤ ds.getD 63 0 ∧ ds.getD 63 0 ≤ 8 := by
  refine ⟨_, signedRadix16_eq_spec s h, radix16Spec_length _ _, radix16Spec_eval _ _,
    fun i hi => radix16Spec_digit _ _ i hi, ?_⟩
  obtain ⟨d, ds, hn, hlen⟩ := nibbles_cons_of_scalar s h
  have hmem := nibbles_mem s
  rw [hn] at hmem
  have heval := nibbles_eval s h.2.1
  have hlast := recenter_last ds d 0 (hmem d (by simp)) (fun x hx => hmem x (by simp [hx])) (Or.inl rfl)
  rw [recenter_eq_spec ds d 0 (hmem d (by simp)) (fun x hx => hmem x (by simp [hx])) (Or.inl rfl)] at hlast
  rw [hlen, ← hn, heval, nibbles_getD_odd s 31] at hlast
  simp only [Int.zero_add] at hlast
  have := h.2.2
  omega

example : IsScalar (List.replicate 31 255 ++ [127]) := by decide

/-! ## PART B: non-adjacent form -/

/-- the 64-bit words of the number `N` -/
def D (N : Nat) (i : Nat) : Nat := N / 2 ^ (64 * i) % 2 ^ 64

theorem window_eq (N pos w : Nat) (hw : w ≤ 8) :
    (if pos % 64 < 64 - w then D N (pos / 64) >>> (pos % 64)
      else (D N (pos / 64) >>> (pos % 64)) ||| ((D N (1 + pos / 64) <<< (64 - pos % 64)) % 2 ^ 64)) &&& (2 ^ w - 1)
      = N / 2 ^ pos % 2 ^ w := by
  have hpos : pos = 64 * (pos / 64) + pos % 64 := by omega
  generalize pos / 64 = iw at *
  have hib : pos % 64 < 64 := by omega
  generalize pos % 64 = ib at *
  subst hpos
  apply Nat.eq_of_testBit_eq
  intro j
  unfold D
  split
  · simp only [Nat.testBit_and, Nat.testBit_two_pow_sub_one, Nat.testBit_mod_two_pow, Nat.testBit_div_two_pow,
      Nat.testBit_shiftRight]
    by_cases hj : j < w
    · have h1 : ib + j < 64 := by omega
      have h2 : ib + j + 64 * iw = j + (64 * iw + ib) := by omega
      simp [hj, h1, h2]
    · simp [hj]
  · simp only [Nat.testBit_and, Nat.testBit_two_pow_sub_one, Nat.testBit_mod_two_pow, Nat.testBit_div_two_pow,
      Nat.testBit_shiftRight, Nat.testBit_or, Nat.testBit_shiftLeft]
    by_cases hj : j < w
    · by_cases h1 : ib + j < 64
      · have h2 : ib + j + 64 * iw = j + (64 * iw + ib) := by omega
        have h3 : ¬ (j ≥ 64 - ib) := by omega
        simp [hj, h1, h2, h3]
      · have h2 : j - (64 - ib) + 64 * (1 + iw) = j + (64 * iw + ib) := by omega
        have h3 : j ≥ 64 - ib := by omega
        have h4 : j < 64 := by omega
        have h5 : j - (64 - ib) < 64 := by omega
        simp [hj, h1, h2, h3, h4, h5]
    · simp [hj]

/-! ### bytes to number -/

theorem leNat_drop : ∀ (s : List Nat) (k : Nat), (∀ b ∈ s, b < 256) → leNat (s.drop k) = leNat s / 256 ^ k := by
  intro s; induction s with
  | nil => intro k _; simp [leNat]
  | cons b bs ih =>
    intro k h
    cases k with
    | zero => simp
    | succ k =>
      have hb := h b (by simp)
      rw [List.drop_succ_cons, ih k (fun x hx => h x (by simp [hx])), Nat.pow_succ', ← Nat.div_div_eq_div_mul]
      simp only [leNat]
      congr 1; omega

theorem leNat_take : ∀ (s : List Nat) (k : Nat), (∀ b ∈ s, b < 256) → leNat (s.take k) = leNat s % 256 ^ k := by
  intro s; induction s with
  | nil => intro k _; simp [leNat]
  | cons b bs ih =>
    intro k h
    cases k with
    | zero => simp [leNat, Nat.mod_one]
    | succ k =>
      have hb := h b (by simp)
      rw [List.take_succ_cons, Nat.pow_succ', Nat.mod_mul]
      simp only [leNat]
      rw [ih k (fun x hx => h x (by simp [hx]))]
      have h1 : (b + 256 * leNat bs) % 256 = b := by omega
      have h2 : (b + 256 * leNat bs) / 256 = leNat bs := by omega
      rw [h1, h2]

theorem leNat_lt : ∀ (s : List Nat), (∀ b ∈ s, b < 256) → leNat s < 256 ^ s.length := by
  intro s; induction s with
  | nil => intro _; simp [leNat]
  | cons b bs ih =>
    intro h
    have hb := h b (by simp)
    have := ih (fun x hx => h x (by simp [hx]))
    simp only [leNat, List.length_cons, Nat.pow_succ]
    omega

theorem words_eq (s : List Nat) (hl : s.length = 32) (hb : ∀ b ∈ s, b < 256) :
    (fun i => if i < 4 then word64 s i else 0) = D (leNat s) := by
  funext i
  have hN := leNat_lt s hb
  rw [hl] at hN
  unfold D
  have h256 : ∀ k, 256 ^ k = 2 ^ (8 * k) := by
    intro k; rw [Nat.pow_mul]
  split
  · unfold word64
    rw [leNat_take _ _ (fun x hx => hb x (List.mem_of_mem_drop hx)), leNat_drop _ _ hb, h256, h256]
    have : 8 * (8 * i) = 64 * i := by omega
    rw [this]
  · rename_i hi
    have h1 : 2 ^ 256 ≤ 2 ^ (64 * i) := Nat.pow_le_pow_right (by decide) (by omega)
    rw [h256] at hN
    rw [Nat.div_eq_of_lt (by omega)]

/-! ### the specification -/

theorem nafSpec_length (w : Nat) : ∀ (n : Nat) (r : Int), (nafSpec w n r).length = n := by
  intro n; induction n with
  | zero => intro r; rfl
  | succ n ih => intro r; unfold nafSpec; split <;> simp [ih]

theorem nafSpec_even (w n : Nat) (r : Int) (h : r % 2 = 0) : nafSpec w (n + 1) r = 0 :: nafSpec w n (r / 2) := by
  rw [nafSpec]; simp [h]

theorem nafSpec_odd (w n : Nat) (r : Int) (h : ¬ r % 2 = 0) :
    nafSpec w (n + 1) r = ((r + (2 : Int) ^ (w - 1)) % (2 : Int) ^ w - (2 : Int) ^ (w - 1)) ::
      nafSpec w n ((r - ((r + (2 : Int) ^ (w - 1)) % (2 : Int) ^ w - (2 : Int) ^ (w - 1))) / 2) := by
  rw [nafSpec]; simp [h]

theorem nafSpec_two_pow_mul (w : Nat) : ∀ (k n : Nat) (r : Int),
    nafSpec w n ((2 : Int) ^ k * r) = List.replicate (min n k) 0 ++ nafSpec w (n - k) r := by
  intro k; induction k with
  | zero => intro n r; simp
  | succ k ih =>
    intro n r
    cases n with
    | zero => simp [nafSpec]
    | succ n =>
      have h1 : (2 : Int) ^ (k + 1) * r % 2 = 0 := by
        rw [Int.pow_succ, Int.mul_comm _ 2, Int.mul_assoc]; generalize (2 : Int) ^ k * r = T; omega
      have h2 : (2 : Int) ^ (k + 1) * r / 2 = 2 ^ k * r := by
        rw [Int.pow_succ, Int.mul_comm _ 2, Int.mul_assoc]; generalize (2 : Int) ^ k * r = T; omega
      rw [nafSpec_even _ _ _ h1, h2, ih, Nat.succ_min_succ, List.replicate_succ, Nat.add_sub_add_right]
      simp

macro "wcases " w:ident : tactic =>
  `(tactic| (have hwc : $w = 2 ∨ $w = 3 ∨ $w = 4 ∨ $w = 5 ∨ $w = 6 ∨ $w = 7 ∨ $w = 8 := by omega
             rcases hwc with hwc | hwc | hwc | hwc | hwc | hwc | hwc <;> subst hwc))

theorem nafSpec_digit (w : Nat) (hw2 : 2 ≤ w) (hw8 : w ≤ 8) : ∀ (n : Nat) (r : Int) (i : Nat),
    (nafSpec w n r).getD i 0 = 0 ∨ ((nafSpec w n r).getD i 0 % 2 = 1 ∧
      -(2 : Int) ^ (w - 1) < (nafSpec w n r).getD i 0 ∧ (nafSpec w n r).getD i 0 < (2 : Int) ^ (w - 1)) := by
  intro n; induction n with
  | zero => intro r i; simp [nafSpec]
  | succ n ih =>
    intro r i
    by_cases h : r % 2 = 0
    · rw [nafSpec_even _ _ _ h]
      cases i with
      | zero => simp
      | succ i => simpa using ih _ i
    · rw [nafSpec_odd _ _ _ h]
      cases i with
      | zero =>
        right
        simp only [List.getD_cons_zero]
        wcases w <;> simp only [Nat.reduceSub, Int.reducePow] <;> omega
      | succ i => simpa using ih _ i

theorem nafSpec_eval (w : Nat) (hw2 : 2 ≤ w) (hw8 : w ≤ 8) : ∀ (n : Nat) (r : Int),
    0 ≤ r → 2 * r ≤ ((2 ^ n : Nat) : Int) → evalDigits 1 (nafSpec w n r) = r := by
  intro n; induction n with
  | zero => intro r h0 h1; simp [nafSpec, evalDigits]; omega
  | succ n ih =>
    intro r h0 h1
    rw [Nat.pow_succ] at h1
    by_cases h : r % 2 = 0
    · rw [nafSpec_even _ _ _ h, evalDigits_cons, ih _ (by omega) (by omega)]
      omega
    · rw [nafSpec_odd _ _ _ h, evalDigits_cons]
      have key : 0 ≤ (r - ((r + (2 : Int) ^ (w - 1)) % (2 : Int) ^ w - (2 : Int) ^ (w - 1))) / 2 ∧
          2 * ((r - ((r + (2 : Int) ^ (w - 1)) % (2 : Int) ^ w - (2 : Int) ^ (w - 1))) / 2) ≤ ((2 ^ n : Nat) : Int) ∧
          (r - ((r + (2 : Int) ^ (w - 1)) % (2 : Int) ^ w - (2 : Int) ^ (w - 1))) % 2 = 0 := by
        by_cases hn : w ≤ n
        · have hT : 2 ^ n = 2 ^ w * 2 ^ (n - w) := by rw [← Nat.pow_add]; congr 1; omega
          generalize 2 ^ (n - w) = M at hT
          generalize 2 ^ n = T at *
          subst hT
          wcases w <;> simp only [Nat.reduceSub, Int.reducePow, Nat.reducePow] at * <;> omega
        · have hT : 2 ^ n ≤ 2 ^ (w - 1) := Nat.pow_le_pow_right (by decide) (by omega)
          generalize 2 ^ n = T at *
          wcases w <;> simp only [Nat.reduceSub, Int.reducePow, Nat.reducePow] at * <;> omega
      rw [ih _ key.1 key.2.1]
      have h2 := key.2.2
      generalize (r + (2 : Int) ^ (w - 1)) % (2 : Int) ^ w - (2 : Int) ^ (w - 1) = d at *
      omega


/-! ### number facts for one round of the loop (`q` is the number shifted right by `pos`) -/

theorem num_even (w : Nat) (hw2 : 2 ≤ w) (hw8 : w ≤ 8) (q carry : Nat) (hc : carry ≤ 1)
    (h : (carry + q % 2 ^ w) % 2 = 0) :
    ((q + carry : Nat) : Int) % 2 = 0 ∧ ((q + carry : Nat) : Int) / 2 = ((q / 2 + carry : Nat) : Int) := by
  wcases w <;> simp only [Nat.reducePow] at h <;> omega

theorem num_odd_small (w : Nat) (hw2 : 2 ≤ w) (hw8 : w ≤ 8) (q carry : Nat) (hc : carry ≤ 1)
    (h : ¬ (carry + q % 2 ^ w) % 2 = 0) (hs : carry + q % 2 ^ w < 2 ^ w / 2) :
    ¬ ((q + carry : Nat) : Int) % 2 = 0 ∧
    wrap8 ((carry + q % 2 ^ w : Nat) : Int) = ((carry + q % 2 ^ w : Nat) : Int) ∧
    (((q + carry : Nat) : Int) + (2 : Int) ^ (w - 1)) % (2 : Int) ^ w - (2 : Int) ^ (w - 1)
      = ((carry + q % 2 ^ w : Nat) : Int) ∧
    (((q + carry : Nat) : Int) - ((carry + q % 2 ^ w : Nat) : Int)) / 2
      = (2 : Int) ^ (w - 1) * ((q / 2 ^ w + 0 : Nat) : Int) := by
  unfold wrap8
  wcases w <;> simp only [Nat.reducePow, Nat.reduceSub, Int.reducePow, Nat.reduceDiv] at h hs ⊢ <;> omega

theorem num_odd_large (w : Nat) (hw2 : 2 ≤ w) (hw8 : w ≤ 8) (q carry : Nat) (hc : carry ≤ 1)
    (h : ¬ (carry + q % 2 ^ w) % 2 = 0) (hs : ¬ carry + q % 2 ^ w < 2 ^ w / 2) :
    ¬ ((q + carry : Nat) : Int) % 2 = 0 ∧
    wrap8 (wrap8 ((carry + q % 2 ^ w : Nat) : Int) - wrap8 ((2 : Int) ^ w))
      = ((carry + q % 2 ^ w : Nat) : Int) - (2 : Int) ^ w ∧
    (((q + carry : Nat) : Int) + (2 : Int) ^ (w - 1)) % (2 : Int) ^ w - (2 : Int) ^ (w - 1)
      = ((carry + q % 2 ^ w : Nat) : Int) - (2 : Int) ^ w ∧
    (((q + carry : Nat) : Int) - (((carry + q % 2 ^ w : Nat) : Int) - (2 : Int) ^ w)) / 2
      = (2 : Int) ^ (w - 1) * ((q / 2 ^ w + 1 : Nat) : Int) := by
  unfold wrap8
  wcases w <;> simp only [Nat.reducePow, Nat.reduceSub, Int.reducePow, Nat.reduceDiv] at h hs ⊢ <;> omega

/-! ### the loop -/

theorem nafLoop_done (d : Nat → Nat) (w fuel pos carry : Nat) (naf : List Int) (h : 256 ≤ pos) :
    nafLoop d w fuel pos carry naf = naf := by
  cases fuel with
  | zero => rfl
  | succ f => rw [nafLoop, if_neg (by omega)]

theorem set_pre (pre : List Int) (x : Int) (l : List Int) : (pre ++ 0 :: l).set pre.length x = pre ++ x :: l := by
  simp

theorem odd_tail (N w fuel pos n : Nat) (pre : List Int) (x : Int) (c' : Nat) (hw2 : 2 ≤ w)
    (ih : ∀ (pos carry : Nat) (pre : List Int), pre.length = pos → pos ≤ 256 → 256 - pos ≤ fuel → carry ≤ 1 →
      nafLoop (D N) w fuel pos carry (pre ++ List.replicate (256 - pos) 0) =
        pre ++ nafSpec w (256 - pos) ((N / 2 ^ pos + carry : Nat) : Int))
    (hpre : pre.length = pos) (hn : 256 - pos = n + 1) (hfuel : 256 - pos ≤ fuel + 1) (hc' : c' ≤ 1) :
    nafLoop (D N) w fuel (pos + w) c' (pre ++ x :: List.replicate n 0) =
      pre ++ x :: nafSpec w n ((2 : Int) ^ (w - 1) * ((N / 2 ^ (pos + w) + c' : Nat) : Int)) := by
  rw [nafSpec_two_pow_mul]
  by_cases hk : w - 1 ≤ n
  · obtain ⟨n', hn'⟩ : ∃ n', n = (w - 1) + n' := ⟨n - (w - 1), by omega⟩
    have h1 : min n (w - 1) = w - 1 := by omega
    have h2 : n - (w - 1) = n' := by omega
    have h3 : 256 - (pos + w) = n' := by omega
    have := ih (pos + w) c' (pre ++ x :: List.replicate (w - 1) 0) (by simp [hpre]; omega) (by omega) (by omega) hc'
    rw [h3] at this
    rw [h1, h2, hn', ← List.replicate_append_replicate]
    simpa using this
  · have h1 : min n (w - 1) = n := by omega
    have h2 : n - (w - 1) = 0 := by omega
    rw [nafLoop_done _ _ _ _ _ _ (by omega), h1, h2]
    simp [nafSpec]

theorem nafLoop_eq (N w : Nat) (hw2 : 2 ≤ w) (hw8 : w ≤ 8) : ∀ (fuel pos carry : Nat) (pre : List Int),
    pre.length = pos → pos ≤ 256 → 256 - pos ≤ fuel → carry ≤ 1 →
    nafLoop (D N) w fuel pos carry (pre ++ List.replicate (256 - pos) 0) =
      pre ++ nafSpec w (256 - pos) ((N / 2 ^ pos + carry : Nat) : Int) := by
  intro fuel; induction fuel with
  | zero =>
    intro pos carry pre hpre hpos hfuel hc
    have : 256 - pos = 0 := by omega
    rw [this]; simp [nafLoop, nafSpec]
  | succ fuel ih =>
    intro pos carry pre hpre hpos hfuel hc
    by_cases hlt : pos < 256
    · obtain ⟨n, hn⟩ : ∃ n, 256 - pos = n + 1 := ⟨255 - pos, by omega⟩
      rw [nafLoop, if_pos hlt]
      simp only [window_eq N pos w hw8, Nat.and_one_is_mod]
      have hq1 : N / 2 ^ (pos + 1) = N / 2 ^ pos / 2 := by rw [Nat.pow_succ, ← Nat.div_div_eq_div_mul]
      have hqw : N / 2 ^ (pos + w) = N / 2 ^ pos / 2 ^ w := by rw [Nat.pow_add, ← Nat.div_div_eq_div_mul]
      rw [hn, List.replicate_succ]
      split
      · rename_i he
        obtain ⟨e1, e2⟩ := num_even w hw2 hw8 _ carry hc he
        rw [nafSpec_even _ _ _ e1, e2, ← hq1]
        have := ih (pos + 1) carry (pre ++ [0]) (by simp [hpre]) (by omega) (by omega) hc
        have h256 : 256 - (pos + 1) = n := by omega
        rw [h256] at this
        simpa using this
      · rename_i ho
        subst hpre
        split
        · rename_i hs
          obtain ⟨e1, e2, e3, e4⟩ := num_odd_small w hw2 hw8 _ carry hc ho hs
          rw [set_pre, nafSpec_odd _ _ _ e1, e2, e3, e4, ← hqw]
          exact odd_tail N w fuel _ n pre _ 0 hw2 ih rfl hn hfuel (by omega)
        · rename_i hs
          obtain ⟨e1, e2, e3, e4⟩ := num_odd_large w hw2 hw8 _ carry hc ho hs
          rw [set_pre, nafSpec_odd _ _ _ e1, e2, e3, e4, ← hqw]
          exact odd_tail N w fuel _ n pre _ 1 hw2 ih rfl hn hfuel (by omega)
    · have : 256 - pos = 0 := by omega
      rw [this, nafLoop_done _ _ _ _ _ _ (by omega)]; simp [nafSpec]


/-! ### PART B: the theorems -/

theorem leNat_lt_of_scalar (s : List Nat) (h : IsScalar s) : leNat s < 2 ^ 255 := by
  have h1 := leNat_drop s 31 h.2.1
  have h2 : s.drop 31 = [s.getD 31 0] := by
    apply List.ext_getElem
    · simp [h.1]
    · intro i h1 h2
      have : i = 0 := by simp [h.1] at h1; omega
      subst this
      simp [List.getD_eq_getElem?_getD, List.getElem?_eq_getElem (show 31 < s.length by rw [h.1]; decide)]
  rw [h2] at h1
  simp only [leNat] at h1
  have := h.2.2
  omega

/-- the general form: every width `2 ≤ w ≤ 8` -/
theorem nonAdjacentForm_eq_spec' (s : List Nat) (h : IsScalar s) (w : Nat) (hw2 : 2 ≤ w) (hw8 : w ≤ 8) :
    nonAdjacentForm s w = some (nafSpec w 256 (leNat s : Int)) := by
  unfold nonAdjacentForm
  rw [if_neg (by have := h.2.2; omega), if_neg (by omega), if_neg (by omega)]
  simp only [words_eq s h.1 h.2.1]
  have := nafLoop_eq (leNat s) w hw2 hw8 256 0 0 [] rfl (by omega) (by omega) (by omega)
  simp only [Nat.sub_zero, List.nil_append, Nat.pow_zero, Nat.div_one, Nat.add_zero] at this
  rw [this]

theorem nonAdjacentForm_spec' (s : List Nat) (h : IsScalar s) (w : Nat) (hw2 : 2 ≤ w) (hw8 : w ≤ 8) :
    ∃ naf, nonAdjacentForm s w = some naf ∧ naf.length = 256 ∧ evalDigits 1 naf = (leNat s : Int) ∧
      (∀ i, i < 256 → naf.getD i 0 = 0 ∨ (naf.getD i 0 % 2 = 1 ∧ -(2 : Int) ^ (w - 1) < naf.getD i 0 ∧
        naf.getD i 0 < (2 : Int) ^ (w - 1))) := by
  refine ⟨_, nonAdjacentForm_eq_spec' s h w hw2 hw8, nafSpec_length _ _ _, ?_, fun i _ => nafSpec_digit w hw2 hw8 _ _ i⟩
  apply nafSpec_eval w hw2 hw8
  · omega
  · have := leNat_lt_of_scalar s h
    omega

theorem nonAdjacentForm_eq_spec (s : List Nat) (h : IsScalar s) (w : Nat) (hw : w = 5 ∨ w = 8) :
    nonAdjacentForm s w = some (nafSpec w 256 (leNat s : Int)) :=
  nonAdjacentForm_eq_spec' s h w (by omega) (by omega)

example : nonAdjacentForm (List.replicate 31 255 ++ [127]) 5 =
    some (nafSpec 5 256 (leNat (List.replicate 31 255 ++ [127]) : Int)) :=
  nonAdjacentForm_eq_spec _ (by decide) 5 (Or.inl rfl)

theorem nonAdjacentForm_spec (s : List Nat) (h : IsScalar s) (w : Nat) (hw : w = 5 ∨ w = 8) :
    ∃ naf, nonAdjacentForm s w = some naf ∧ naf.length = 256 ∧ evalDigits 1 naf = (leNat s : Int) ∧
      (∀ i, i < 256 → naf.getD i 0 = 0 ∨ (naf.getD i 0 % 2 = 1 ∧ -(2 : Int) ^ (w - 1) < naf.getD i 0 ∧ naf.getD i 0 < (2 : Int) ^ (w - 1))) :=
  nonAdjacentForm_spec' s h w (by omega) (by omega)

example : ∃ naf, nonAdjacentForm (List.replicate 31 255 ++ [127]) 8 = some naf ∧ naf.length = 256 ∧
    evalDigits 1 naf = (leNat (List.replicate 31 255 ++ [127]) : Int) :=
  let ⟨naf, h1, h2, h3, _⟩ := nonAdjacentForm_spec (List.replicate 31 255 ++ [127]) (by decide) 8 (Or.inr rfl)
  ⟨naf, h1, h2, h3⟩

end PatVerif.Proofs.Recode
