import PatVerif.Generated.Skeletons
/-!
# Control skeleton of the rate-limited issuer: parse, decrypt under its own name key, origin lookup, signature check, blinding, blind signing (C07, C08)

`Generated/Skeletons.lean` is extracted from the Go source on every check of the properties that rest on
these functions (`/verif/extract/cmd/skeleton`): calls by callee, returns by kind, stores through maps and
receivers, conditions, in source order. The lists below are the skeletons the hand-written models were
written against; the theorems say the code has exactly these skeletons today.

Every `return error` of `issuer3_Evaluate` that belongs to a check precedes the blind signature (`call signer.BlindSign`);
the origin lookup and the signature check both come before it, and the request key is blinded with the origin's index key
only after both.
-/
namespace PatVerif.Proofs.SkelIssuer3

def expected_issuer3_Evaluate : List String :=
  ["call req.Unmarshal",
   "if !req.Unmarshal(encodedRequest) {",
   "return error",
   "}",
   "call decryptOriginTokenRequest",
   "if err != nil {",
   "return error",
   "}",
   "call unpadOriginName",
   "if !ok {",
   "return error",
   "}",
   "call unmarshalPublicKey",
   "if err != nil {",
   "return error",
   "}",
   "call (…).Params",
   "call (…).Params",
   "call (…).SetBytes",
   "call (…).SetBytes",
   "call sha512.New384",
   "call hash.Write",
   "call hash.Sum",
   "call ecdsa.Verify",
   "if !valid {",
   "return error",
   "}",
   "call ecdsa.BlindPublicKeyWithContext",
   "if err != nil {",
   "return error",
   "}",
   "call elliptic.MarshalCompressed",
   "call blindrsa.NewSigner",
   "call signer.BlindSign",
   "if err != nil {",
   "return error",
   "}",
   "call max",
   "call (…).KeySize",
   "call (…).NonceSize",
   "call rand.Read",
   "if err != nil {",
   "return error",
   "}",
   "call (…).PublicKeySize",
   "call (…).PublicKeySize",
   "call (…).Extract",
   "call (…).Expand",
   "call (…).KeySize",
   "call (…).Expand",
   "call (…).NonceSize",
   "call (…).New",
   "if err != nil {",
   "return error",
   "}",
   "call cipher.Seal",
   "return no-error"]

theorem issuer3_Evaluate_as_modelled : Generated.Skeletons.issuer3_Evaluate = expected_issuer3_Evaluate := rfl

def expected_decryptOriginTokenRequest : List String :=
  ["call sha256.Sum256",
   "call (…).Marshal",
   "call nameKey.Public",
   "call (…).ID",
   "call (…).ID",
   "call (…).ID",
   "call (…).PublicKeySize",
   "if len(encryptedTokenRequest) < nameKey.suite.KEM.PublicKeySize() {",
   "return error",
   "}",
   "call (…).PublicKeySize",
   "call (…).PublicKeySize",
   "call hpke.SetupBaseR",
   "if err != nil {",
   "return error",
   "}",
   "call context.Open",
   "if err != nil {",
   "return error",
   "}",
   "call tokenRequest.Unmarshal",
   "if !tokenRequest.Unmarshal(tokenRequestEnc) {",
   "return error",
   "}",
   "call context.Export",
   "call (…).KeySize",
   "return error"]

theorem decryptOriginTokenRequest_as_modelled : Generated.Skeletons.decryptOriginTokenRequest = expected_decryptOriginTokenRequest := rfl

end PatVerif.Proofs.SkelIssuer3
