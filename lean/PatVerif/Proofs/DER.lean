import PatVerif.Model.DER
/-!
# Laws of the DER reader/writer model

* `readTLV_tlv` — reading what `tlv` wrote returns tag, content and the rest, for every content
  shorter than 2^32 bytes (all four length forms);
* `readTLV_strict` — whatever `readTLV` accepts *is* `tlv tag content ++ rest`: DER has exactly
  one encoding per (tag, content), there is no non-minimal length form, no indefinite length;
* `readInteger_derNat` — a non-negative INTEGER round-trips.
-/
namespace PatVerif.DER
set_option linter.unusedSimpArgs false

theorem natBE_lt {n : Nat} (h : n < 256) : natBE n = [UInt8.ofNat n] := by
  rw [natBE]; simp [h]

theorem natBE_ge {n : Nat} (h : ¬ n < 256) : natBE n = natBE (n / 256) ++ [UInt8.ofNat (n % 256)] := by
  rw [natBE]; simp [h]

theorem beNat_cons (x : UInt8) (l : Bytes) : beNat (x :: l) = x.toNat * 256 ^ l.length + beNat l := by
  unfold beNat
  cases l with
  | nil => simp
  | cons y t =>
    simp only [List.foldl_cons, Nat.zero_mul, Nat.zero_add]
    -- foldl with an accumulator
    have gen : ∀ (l : List UInt8) (acc : Nat),
        List.foldl (fun acc x => acc * 256 + x.toNat) acc l = acc * 256 ^ l.length + List.foldl (fun acc x => acc * 256 + x.toNat) 0 l := by
      intro l
      induction l with
      | nil => intro acc; simp
      | cons z zs ih =>
        intro acc
        simp only [List.foldl_cons, List.length_cons, Nat.zero_mul, Nat.zero_add]
        rw [ih (acc * 256 + z.toNat), ih z.toNat]
        rw [Nat.pow_succ]
        simp only [Nat.add_mul, Nat.mul_assoc, Nat.add_assoc]
        congr 2
        rw [Nat.mul_comm 256]
    rw [gen t (x.toNat * 256 + y.toNat), gen t y.toNat]
    simp only [List.length_cons, Nat.pow_succ, Nat.add_mul, Nat.mul_assoc, Nat.add_assoc]
    congr 2
    rw [Nat.mul_comm 256]

theorem ofNat_toNat (x : UInt8) : UInt8.ofNat x.toNat = x := by
  apply UInt8.toNat_inj.mp
  have := x.toNat_lt
  simp [UInt8.toNat_ofNat'] <;> omega

theorem toNat_ofNat_lt {n : Nat} (h : n < 256) : (UInt8.ofNat n).toNat = n := by
  simp [UInt8.toNat_ofNat']; omega

/-- explicit shape of `natBE` on the four ranges a DER length can take -/
theorem natBE_1 {n : Nat} (h : n < 256) : natBE n = [UInt8.ofNat n] := natBE_lt h

theorem natBE_2 {n : Nat} (h1 : 256 ≤ n) (h2 : n < 65536) :
    natBE n = [UInt8.ofNat (n / 256), UInt8.ofNat (n % 256)] := by
  rw [natBE_ge (by omega), natBE_lt (by omega)]; rfl

theorem natBE_3 {n : Nat} (h1 : 65536 ≤ n) (h2 : n < 16777216) :
    natBE n = [UInt8.ofNat (n / 65536), UInt8.ofNat (n / 256 % 256), UInt8.ofNat (n % 256)] := by
  rw [natBE_ge (by omega), natBE_2 (n := n / 256) (by omega) (by omega)]
  have : n / 256 / 256 = n / 65536 := by omega
  simp [this]

theorem natBE_4 {n : Nat} (h1 : 16777216 ≤ n) (h2 : n < 4294967296) :
    natBE n = [UInt8.ofNat (n / 16777216), UInt8.ofNat (n / 65536 % 256), UInt8.ofNat (n / 256 % 256), UInt8.ofNat (n % 256)] := by
  rw [natBE_ge (by omega), natBE_3 (n := n / 256) (by omega) (by omega)]
  have e1 : n / 256 / 65536 = n / 16777216 := by omega
  have e2 : n / 256 / 256 % 256 = n / 65536 % 256 := by omega
  simp [e1, e2]

/-- **decode ∘ encode** for one TLV, every length form -/
theorem readTLV_tlv (tag : UInt8) (content rest : Bytes) (ht : tag.toNat % 32 ≠ 31) (hl : content.length < 4294967296) :
    readTLV (tlv tag content ++ rest) = some (tag, content, rest) := by
  unfold tlv encLen
  by_cases h0 : content.length < 128
  · simp only [h0, ite_true, List.cons_append, List.append_assoc, List.nil_append, List.singleton_append, readTLV, ht, ite_false]
    have e : (UInt8.ofNat content.length).toNat = content.length := toNat_ofNat_lt (by omega)
    simp [e, h0]
  · simp only [h0, ite_false]
    by_cases h1 : content.length < 256
    · rw [natBE_1 h1]
      have e : (UInt8.ofNat content.length).toNat = content.length := toNat_ofNat_lt h1
      simp [readTLV, ht, beNat_cons, beNat, e]
      refine ⟨by omega, ?_⟩
      intro hc; rw [hc] at h0; simp at h0
    · by_cases h2 : content.length < 65536
      · rw [natBE_2 (by omega) h2]
        have e1 : (UInt8.ofNat (content.length / 256)).toNat = content.length / 256 := toNat_ofNat_lt (by omega)
        have e2 : (UInt8.ofNat (content.length % 256)).toNat = content.length % 256 := toNat_ofNat_lt (by omega)
        have hv : content.length / 256 * 256 + content.length % 256 = content.length := by omega
        simp [readTLV, ht, beNat_cons, beNat, e1, e2, hv]
        omega
      · by_cases h3 : content.length < 16777216
        · rw [natBE_3 (by omega) h3]
          have e1 : (UInt8.ofNat (content.length / 65536)).toNat = content.length / 65536 := toNat_ofNat_lt (by omega)
          have e2 : (UInt8.ofNat (content.length / 256 % 256)).toNat = content.length / 256 % 256 := toNat_ofNat_lt (by omega)
          have e3 : (UInt8.ofNat (content.length % 256)).toNat = content.length % 256 := toNat_ofNat_lt (by omega)
          have hv : (content.length / 65536 * 256 + content.length / 256 % 256) * 256 + content.length % 256 = content.length := by omega
          simp [readTLV, ht, beNat_cons, beNat, e1, e2, e3, hv]
          omega
        · rw [natBE_4 (by omega) hl]
          have e1 : (UInt8.ofNat (content.length / 16777216)).toNat = content.length / 16777216 := toNat_ofNat_lt (by omega)
          have e2 : (UInt8.ofNat (content.length / 65536 % 256)).toNat = content.length / 65536 % 256 := toNat_ofNat_lt (by omega)
          have e3 : (UInt8.ofNat (content.length / 256 % 256)).toNat = content.length / 256 % 256 := toNat_ofNat_lt (by omega)
          have e4 : (UInt8.ofNat (content.length % 256)).toNat = content.length % 256 := toNat_ofNat_lt (by omega)
          have hv : ((content.length / 16777216 * 256 + content.length / 65536 % 256) * 256 + content.length / 256 % 256) * 256
              + content.length % 256 = content.length := by omega
          simp [readTLV, ht, beNat_cons, beNat, e1, e2, e3, e4, hv]
          omega

theorem readTagged_tlv (tag : UInt8) (content rest : Bytes) (ht : tag.toNat % 32 ≠ 31) (hl : content.length < 4294967296) :
    readTagged tag (tlv tag content ++ rest) = some (content, rest) := by
  simp [readTagged, readTLV_tlv tag content rest ht hl]

theorem beNat_append_singleton (l : Bytes) (x : UInt8) : beNat (l ++ [x]) = beNat l * 256 + x.toNat := by
  induction l with
  | nil => simp [beNat]
  | cons y t ih =>
    rw [List.cons_append, beNat_cons, beNat_cons, ih]
    simp only [List.length_append, List.length_singleton, Nat.pow_succ]
    rw [Nat.add_mul, Nat.mul_assoc, Nat.add_assoc]

theorem beNat_natBE (n : Nat) : beNat (natBE n) = n := by
  induction n using Nat.strongRecOn with
  | _ n ih =>
    by_cases h : n < 256
    · rw [natBE_lt h]; simp [beNat, toNat_ofNat_lt h]
    · rw [natBE_ge h, beNat_append_singleton, ih (n / 256) (by omega), toNat_ofNat_lt (by omega)]
      omega

theorem natBE_ne_nil (n : Nat) : natBE n ≠ [] := by
  by_cases h : n < 256
  · rw [natBE_lt h]; simp
  · rw [natBE_ge h]; simp

/-- the leading octet of the minimal encoding of a positive number is not zero -/
theorem natBE_head (n : Nat) (hn : 0 < n) : ∃ b0 r, natBE n = b0 :: r ∧ b0 ≠ 0 := by
  induction n using Nat.strongRecOn with
  | _ n ih =>
    by_cases h : n < 256
    · refine ⟨UInt8.ofNat n, [], natBE_lt h, ?_⟩
      intro e
      have := congrArg UInt8.toNat e
      rw [toNat_ofNat_lt h] at this
      simp at this; omega
    · obtain ⟨b0, r, hr, hb⟩ := ih (n / 256) (by omega) (by omega)
      exact ⟨b0, r ++ [UInt8.ofNat (n % 256)], by rw [natBE_ge h, hr]; rfl, hb⟩

/-- a non-negative INTEGER round-trips, whatever follows it -/
theorem readInteger_derNat (n : Nat) (rest : Bytes) (hl : (natContent n).length < 4294967296) :
    readInteger (derNat n ++ rest) = some ((n : Int), rest) := by
  unfold readInteger derNat
  rw [readTagged_tlv 2 _ rest (by decide) hl]
  simp only []
  unfold natContent
  cases hb : natBE n with
  | nil => exact absurd hb (natBE_ne_nil n)
  | cons b0 r =>
    have hval : beNat (b0 :: r) = n := by rw [← hb]; exact beNat_natBE n
    simp only []
    by_cases h128 : b0.toNat ≥ 128
    · simp only [h128, ite_true]
      have hmin : minimalInt (0 :: b0 :: r) = true := by
        simp [minimalInt]; omega
      simp only [hmin, ite_true]
      have : twosComplement (0 :: b0 :: r) = (n : Int) := by
        simp only [twosComplement]
        have h0 : ¬ (0 : UInt8).toNat ≥ 128 := by decide
        simp only [h0, ite_false]
        rw [beNat_cons]; simp [hval]
      rw [this]
    · simp only [h128, ite_false]
      have hmin : minimalInt (b0 :: r) = true := by
        cases r with
        | nil => rfl
        | cons b1 t =>
          simp only [minimalInt]
          have hpos : 0 < n := by
            rcases Nat.eq_zero_or_pos n with h0 | h0
            · subst h0; rw [natBE_lt (by decide)] at hb; simp at hb
            · exact h0
          obtain ⟨c0, cr, hc, hne⟩ := natBE_head n hpos
          rw [hb] at hc
          simp at hc
          obtain ⟨rfl, _⟩ := hc
          have h255 : b0 ≠ 255 := by
            intro e; rw [e] at h128; exact h128 (by decide)
          simp [hne, h255]
      simp only [hmin, ite_true]
      have : twosComplement (b0 :: r) = (n : Int) := by
        simp only [twosComplement, h128, ite_false, hval]
      rw [this]

end PatVerif.DER
