import PatVerif.Proofs.ScalarBaseMultRefine
/-!
# `(*Point).VarTimeDoubleScalarBaseMult` computes `a • A + b • B` in the curve group (C14)

The double-scalar multiplication of `Verify` — `[S]B − [k]A` is computed as `VarTimeDoubleScalarBaseMult(k, −A, S)` — transcribed in
`Model/ScalarMultLit.lean` over the translated formulas: the table of odd multiples `1,3,…,15` of `A` (cached coordinates), the table
`1,3,…,127` of `B` (affine-cached, each entry normalised with `Invert`), one doubling per position, `± table[|d|/2]` per non-zero
digit. Proved: for valid points standing for `gA` and `gB` and any two 256-digit lists whose entries are zero or odd with `|aᵢ| < 16`,
`|bᵢ| < 128`, no lookup leaves its table and the result is a valid point standing for `(Σ aᵢ2ⁱ) • gA + (Σ bᵢ2ⁱ) • gB`; with
`Proofs/Recode.lean` (`nonAdjacentForm` of widths 5 and 8), `a • gA + b • gB` for all scalars.
-/
namespace PatVerif.Proofs.DoubleScalarMultRefine
open PatVerif PatVerif.Generated PatVerif.Generated.FeLimbs PatVerif.Generated.EdPoints PatVerif.Proofs.FeHelp PatVerif.Proofs.FeField
  PatVerif.Proofs.EdPoints PatVerif.Proofs.EdComplete PatVerif.Proofs.EdGroup PatVerif.Proofs.EdRepr
  PatVerif.Model.Recode PatVerif.Model.ScalarMultLit PatVerif.Proofs.ScalarMultLit PatVerif.Proofs.ScalarMultRefine
  PatVerif.Proofs.ScalarBaseMultRefine PatVerif.Proofs.ScalarMultAlg

theorem repr2_congr {r : projP2} {a b : EdPoint} (h : Repr2 r a) (e : a = b) : Repr2 r b := e ▸ h

theorem getElem?_of_getD_proj (l : List projCached) (i : Nat) (h : i < l.length) : l[i]? = some (l.getD i zC) := by
  rw [List.getD_eq_getElem?_getD, List.getElem?_eq_getElem h]; rfl
theorem getElem?_of_getD_aff (l : List affineCached) (i : Nat) (h : i < l.length) : l[i]? = some (l.getD i zA) := by
  rw [List.getD_eq_getElem?_getD, List.getElem?_eq_getElem h]; rfl

/-- `nafLookupTable5.FromP3`: entry `i` exists and stands for `(2i + 1) • g` -/
theorem naf5Table_get (A : Point) (g : EdPoint) (hA : ReprP3 A g) (i : Nat) (hi : i < 8) :
    ∃ e, (naf5Table A)[i]? = some e ∧ ReprC e ((2 * (i : ℤ) + 1) • g) := by
  refine ⟨_, getElem?_of_getD_proj _ i (by simp [naf5Table, buildProj_length]; exact hi), ?_⟩
  refine reprC_congr (buildProj_repr _ (g + g) (Point_Add_repr zP A A g g hA hA) 8 _ g (projCached_FromP3_repr _ _ _ hA) i hi) ?_
  module

/-- `nafLookupTable8.FromP3`: entry `i` exists and stands for `(2i + 1) • g` -/
theorem naf8Table_get (B : Point) (g : EdPoint) (hB : ReprP3 B g) (i : Nat) (hi : i < 64) :
    ∃ e, (naf8Table B)[i]? = some e ∧ ReprA e ((2 * (i : ℤ) + 1) • g) := by
  refine ⟨_, getElem?_of_getD_aff _ i (by simp [naf8Table, buildAff_length]; exact hi), ?_⟩
  refine reprA_congr (buildAff_repr _ (g + g) (Point_Add_repr zP B B g g hB hB) 64 _ g (affineCached_FromP3_repr _ _ _ hB) i hi) ?_
  module

theorem odd_half (x : Int) (hpos : 0 < x) (hodd : x % 2 = 1) : 2 * (((x / 2).toNat : ℕ) : ℤ) + 1 = x := by
  rw [Int.toNat_of_nonneg (by omega)]; omega

/-- one position of the loop: from a `projP2` standing for `h` to one standing for `2h + a·gA + b·gB`, and no lookup fails -/
theorem doubleStep_repr (A B : Point) (gA gB : EdPoint) (hA : ReprP3 A gA) (hB : ReprP3 B gB) (aNaf bNaf : List Int) (k : Nat)
    (ha : NafDigit 8 (aNaf.getD (255 - k) 0)) (hb : NafDigit 64 (bNaf.getD (255 - k) 0)) (t : projP2) (h : EdPoint) (ht : Repr2 t h) :
    ∃ t', doubleStep (naf5Table A) (naf8Table B) aNaf bNaf (some t) k = some t' ∧
      Repr2 t' (h + h + (aNaf.getD (255 - k) 0) • gA + (bNaf.getD (255 - k) 0) • gB) := by
  unfold doubleStep
  simp only
  generalize aNaf.getD (255 - k) 0 = a at ha ⊢
  generalize bNaf.getD (255 - k) 0 = b at hb ⊢
  have hd := projP1xP1_Double_repr zQ t h ht
  -- the variable-base half
  have stepA : ∃ t1, (if a > 0 then ((naf5Table A)[(a / 2).toNat]?).map fun m => projP1xP1_Add zQ (Point_fromP1xP1 zP (projP1xP1_Double zQ t)) m
      else if a < 0 then ((naf5Table A)[((-a) / 2).toNat]?).map fun m => projP1xP1_Sub zQ (Point_fromP1xP1 zP (projP1xP1_Double zQ t)) m
      else some (projP1xP1_Double zQ t)) = some t1 ∧ ReprQ t1 (h + h + a • gA) := by
    rcases ha with rfl | ⟨o, l, u⟩
    · exact ⟨_, by simp, reprQ_congr hd (by simp)⟩
    · by_cases hp : a > 0
      · obtain ⟨e, he, hr⟩ := naf5Table_get A gA hA (a / 2).toNat (by omega)
        simp only [hp, ite_true, he, Option.map_some]
        refine ⟨_, rfl, reprQ_congr (projP1xP1_Add_repr _ _ _ _ _ (Point_fromP1xP1_repr _ _ _ hd) hr) ?_⟩
        rw [odd_half a hp o]
      · have hn : a < 0 := by omega
        obtain ⟨e, he, hr⟩ := naf5Table_get A gA hA ((-a) / 2).toNat (by omega)
        simp only [hp, hn, ite_false, ite_true, he, Option.map_some]
        refine ⟨_, rfl, reprQ_congr (projP1xP1_Sub_repr _ _ _ _ _ (Point_fromP1xP1_repr _ _ _ hd) hr) ?_⟩
        rw [odd_half (-a) (by omega) (by omega), neg_smul, sub_neg_eq_add]
  obtain ⟨t1, e1, r1⟩ := stepA
  rw [e1]
  simp only
  -- the fixed-base half
  have stepB : ∃ t2, (if b > 0 then ((naf8Table B)[(b / 2).toNat]?).map fun m => projP1xP1_AddAffine zQ (Point_fromP1xP1 zP t1) m
      else if b < 0 then ((naf8Table B)[((-b) / 2).toNat]?).map fun m => projP1xP1_SubAffine zQ (Point_fromP1xP1 zP t1) m
      else some t1) = some t2 ∧ ReprQ t2 (h + h + a • gA + b • gB) := by
    rcases hb with rfl | ⟨o, l, u⟩
    · exact ⟨_, by simp, reprQ_congr r1 (by simp)⟩
    · by_cases hp : b > 0
      · obtain ⟨e, he, hr⟩ := naf8Table_get B gB hB (b / 2).toNat (by omega)
        simp only [hp, ite_true, he, Option.map_some]
        refine ⟨_, rfl, reprQ_congr (projP1xP1_AddAffine_repr _ _ _ _ _ (Point_fromP1xP1_repr _ _ _ r1) hr) ?_⟩
        rw [odd_half b hp o]
      · have hn : b < 0 := by omega
        obtain ⟨e, he, hr⟩ := naf8Table_get B gB hB ((-b) / 2).toNat (by omega)
        simp only [hp, hn, ite_false, ite_true, he, Option.map_some]
        refine ⟨_, rfl, reprQ_congr (projP1xP1_SubAffine_repr _ _ _ _ _ (Point_fromP1xP1_repr _ _ _ r1) hr) ?_⟩
        rw [odd_half (-b) (by omega) (by omega), neg_smul, sub_neg_eq_add]
  obtain ⟨t2, e2, r2⟩ := stepB
  rw [e2]
  exact ⟨_, rfl, projP2_FromP1xP1_repr _ _ _ r2⟩

theorem getD_naf (n : Nat) (l : List Int) (h : ∀ d ∈ l, NafDigit n d) (i : Nat) : NafDigit n (l.getD i 0) := by
  rw [List.getD_eq_getElem?_getD]
  cases hx : l[i]? with
  | none => exact Or.inl rfl
  | some x => exact h x (List.mem_of_getElem? hx)

/-- **`(*Point).VarTimeDoubleScalarBaseMult` over the translated formulas computes `(Σ aᵢ2ⁱ) • gA + (Σ bᵢ2ⁱ) • gB`** -/
theorem doubleScalarMult_repr (A B : Point) (gA gB : EdPoint) (hA : ReprP3 A gA) (hB : ReprP3 B gB) (aNaf bNaf : List Int)
    (la : aNaf.length = 256) (lb : bNaf.length = 256) (ha : ∀ d ∈ aNaf, NafDigit 8 d) (hb : ∀ d ∈ bNaf, NafDigit 64 d) :
    ∃ R, doubleScalarMult (naf8Table B) aNaf bNaf A = some R ∧ ReprP3 R (evalDigits 1 aNaf • gA + evalDigits 1 bNaf • gB) := by
  have inv : ∀ k, k ≤ 256 → ∃ t, (List.range k).foldl (doubleStep (naf5Table A) (naf8Table B) aNaf bNaf) (some (projP2_Zero z2)) = some t ∧
      Repr2 t (evalDigits 1 (aNaf.drop (256 - k)) • gA + evalDigits 1 (bNaf.drop (256 - k)) • gB) := by
    intro k
    induction k with
    | zero =>
      intro _
      refine ⟨_, rfl, repr2_congr (projP2_Zero_repr z2) ?_⟩
      rw [List.drop_of_length_le (by omega), List.drop_of_length_le (by omega)]
      simp [evalDigits]
    | succ k ih =>
      intro hk
      obtain ⟨t, et, rt⟩ := ih (by omega)
      rw [List.range_succ, List.foldl_append, et]
      simp only [List.foldl_cons, List.foldl_nil]
      obtain ⟨t', e', r'⟩ := doubleStep_repr A B gA gB hA hB aNaf bNaf k (getD_naf 8 aNaf ha _) (getD_naf 64 bNaf hb _) t _ rt
      refine ⟨t', e', repr2_congr r' ?_⟩
      rw [show 256 - (k + 1) = 255 - k by omega, drop_cons aNaf (255 - k) (by omega), drop_cons bNaf (255 - k) (by omega),
        show 255 - k + 1 = 256 - k by omega]
      simp only [evalDigits]
      module
  obtain ⟨t, et, rt⟩ := inv 256 (le_refl _)
  unfold doubleScalarMult
  rw [et]
  refine ⟨_, rfl, ?_⟩
  rw [show 256 - 256 = 0 by rfl, List.drop_zero, List.drop_zero] at rt
  exact Point_fromP2_repr _ _ _ rt

/-- **end to end** (`Verify`'s group equation): for all scalars `a`, `b` the Go code can hold and every valid point `A`, the two non-adjacent
forms exist, no lookup leaves its table, and the loop over the translated formulas and the translated base-point table yields a valid
point standing for `a • gA + b • B` -/
theorem doubleScalarMult_correct (a b : List Nat) (ha : PatVerif.Proofs.Recode.IsScalar a) (hb : PatVerif.Proofs.Recode.IsScalar b)
    (A : Point) (gA : EdPoint) (hA : ReprP3 A gA) :
    ∃ an bn R, nonAdjacentForm a 5 = some an ∧ nonAdjacentForm b 8 = some bn ∧
      doubleScalarMult basepointNafTable an bn A = some R ∧ ReprP3 R ((leNat a : Int) • gA + (leNat b : Int) • basePoint) := by
  obtain ⟨an, ea, la, va, da⟩ := PatVerif.Proofs.Recode.nonAdjacentForm_spec a ha 5 (Or.inl rfl)
  obtain ⟨bn, eb, lb, vb, db⟩ := PatVerif.Proofs.Recode.nonAdjacentForm_spec b hb 8 (Or.inr rfl)
  have na : ∀ d ∈ an, NafDigit 8 d := by
    intro d hm
    obtain ⟨i, hi, rfl⟩ := List.getElem_of_mem hm
    have hg : an.getD i 0 = an[i] := by rw [List.getD_eq_getElem?_getD, List.getElem?_eq_getElem hi]; rfl
    have := da i (by omega)
    rw [hg] at this
    simpa [NafDigit] using this
  have nb : ∀ d ∈ bn, NafDigit 64 d := by
    intro d hm
    obtain ⟨i, hi, rfl⟩ := List.getElem_of_mem hm
    have hg : bn.getD i 0 = bn[i] := by rw [List.getD_eq_getElem?_getD, List.getElem?_eq_getElem hi]; rfl
    have := db i (by omega)
    rw [hg] at this
    simpa [NafDigit] using this
  obtain ⟨R, eR, rR⟩ := doubleScalarMult_repr A _ gA basePoint hA generator_repr an bn la lb na nb
  exact ⟨an, bn, R, ea, eb, eR, by rw [← va, ← vb]; exact rR⟩

end PatVerif.Proofs.DoubleScalarMultRefine
