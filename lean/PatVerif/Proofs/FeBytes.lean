import PatVerif.Proofs.FeMul
/-! `SetBytes`, `Bytes`, `Equal`, `IsNegative` of the translated field code: the byte encoding is the canonical little-endian encoding of the residue. -/
namespace PatVerif.Proofs.FeBytes
open PatVerif PatVerif.Generated PatVerif.Generated.FeLimbs PatVerif.Proofs.FeHelp PatVerif.Proofs.FeCarry

/-- little-endian value of the first `n` bytes of a byte string given by its entries -/
def leN (f : Nat → Nat) : Nat → Nat
  | 0 => 0
  | n + 1 => leN f n + f n * 2 ^ (8 * n)

theorem getD_bslice (x : List Nat) (lo hi i : Nat) (h : lo + i < hi) :
    (U64.bslice x lo hi).getD i 0 = x.getD (lo + i) 0 := by
  unfold U64.bslice
  simp only [List.getD_eq_getElem?_getD]
  rw [List.getElem?_take_of_lt (by omega), List.getElem?_drop]

theorem SetBytes_spec (v : Element) (x : List Nat) (hl : x.length = 32) (hx : ∀ i, i < 32 → x.getD i 0 < 256) :
    ∃ r, SetBytes v x = .ok r ∧ Canon r ∧ val r = leN (fun i => x.getD i 0) 32 % 57896044618658097711785492504343953926634992332820282019728792003956564819968 := by
  refine ⟨_, by simp only [SetBytes, hl]; rfl, ?_⟩
  simp only [U64.leU64, and_mask, U64.shr]
  simp (disch := omega) only [getD_bslice]
  simp only [Nat.zero_add, Nat.reduceAdd]
  have h0 := hx 0 (by omega); have h1 := hx 1 (by omega); have h2 := hx 2 (by omega); have h3 := hx 3 (by omega)
  have h4 := hx 4 (by omega); have h5 := hx 5 (by omega); have h6 := hx 6 (by omega); have h7 := hx 7 (by omega)
  have h8 := hx 8 (by omega); have h9 := hx 9 (by omega); have h10 := hx 10 (by omega); have h11 := hx 11 (by omega)
  have h12 := hx 12 (by omega); have h13 := hx 13 (by omega); have h14 := hx 14 (by omega); have h15 := hx 15 (by omega)
  have h16 := hx 16 (by omega); have h17 := hx 17 (by omega); have h18 := hx 18 (by omega); have h19 := hx 19 (by omega)
  have h20 := hx 20 (by omega); have h21 := hx 21 (by omega); have h22 := hx 22 (by omega); have h23 := hx 23 (by omega)
  have h24 := hx 24 (by omega); have h25 := hx 25 (by omega); have h26 := hx 26 (by omega); have h27 := hx 27 (by omega)
  have h28 := hx 28 (by omega); have h29 := hx 29 (by omega); have h30 := hx 30 (by omega); have h31 := hx 31 (by omega)
  simp only [Canon, val, leN, Nat.reducePow, Nat.reduceMul]
  and_intros <;> omega


theorem or_add (a b k c : Nat) (ha : a < 2 ^ k) (hb : b = c * 2 ^ k) : a ||| b = a + b := by
  subst hb
  rw [Nat.or_comm, ← Nat.shiftLeft_eq, ← Nat.shiftLeft_add_eq_or_of_lt ha, Nat.add_comm]

/-- `Bytes`: the 32 bytes are the little-endian encoding of the value reduced mod p — for every element whose limbs fit
a machine word -/
theorem Bytes_spec (v : Element) (hv : Word v) :
    (FeLimbs.Bytes v).length = 32 ∧ (∀ i, i < 32 → (FeLimbs.Bytes v).getD i 0 < 256) ∧
    leN (fun i => (FeLimbs.Bytes v).getD i 0) 32 = val v % P := by
  obtain ⟨hc, hval⟩ := reduce_spec v hv
  rw [← hval]
  simp only [FeLimbs.Bytes, bytes]
  generalize reduce v = t at hc
  obtain ⟨c0, c1, c2, c3, c4⟩ := hc
  simp only [U64.orAt, U64.lePut64, List.replicate, List.set, List.getD_cons_zero, List.getD_cons_succ, Nat.zero_or, U64.shl, Nat.reducePow]
  rw [or_add _ _ 3 (t.l1 % 32) (by omega) (by omega), or_add _ _ 0 _ (by omega) (Nat.mul_one _).symm,
    or_add _ _ 6 (t.l2 % 4) (by omega) (by omega), or_add _ _ 0 _ (by omega) (Nat.mul_one _).symm,
    or_add _ _ 1 (t.l3 % 128) (by omega) (by omega),
    or_add _ _ 4 (t.l4 % 16) (by omega) (by omega), or_add _ _ 0 _ (by omega) (Nat.mul_one _).symm]
  refine ⟨rfl, ?_, ?_⟩
  · intro i hi
    have : i = 0 ∨ i = 1 ∨ i = 2 ∨ i = 3 ∨ i = 4 ∨ i = 5 ∨ i = 6 ∨ i = 7 ∨ i = 8 ∨ i = 9 ∨ i = 10 ∨ i = 11 ∨ i = 12 ∨ i = 13 ∨ i = 14
        ∨ i = 15 ∨ i = 16 ∨ i = 17 ∨ i = 18 ∨ i = 19 ∨ i = 20 ∨ i = 21 ∨ i = 22 ∨ i = 23 ∨ i = 24 ∨ i = 25 ∨ i = 26 ∨ i = 27 ∨ i = 28
        ∨ i = 29 ∨ i = 30 ∨ i = 31 := by omega
    rcases this with h | h | h | h | h | h | h | h | h | h | h | h | h | h | h | h | h | h | h | h | h | h | h | h | h | h | h | h | h | h | h | h <;>
      subst h <;> simp only [List.getD_cons_zero, List.getD_cons_succ] <;> omega
  · simp only [leN, List.getD_cons_zero, List.getD_cons_succ, val, Nat.reducePow, Nat.reduceMul]
    omega

theorem leN_lt (f : Nat → Nat) (n : Nat) (h : ∀ i, i < n → f i < 256) : leN f n < 2 ^ (8 * n) := by
  induction n with
  | zero => simp [leN]
  | succ n ih =>
    have h1 := ih (fun i hi => h i (by omega))
    have h2 := h n (by omega)
    simp only [leN]
    have : 2 ^ (8 * (n + 1)) = 256 * 2 ^ (8 * n) := by
      rw [show 8 * (n + 1) = 8 + 8 * n by omega, Nat.pow_add]
    rw [this]
    have : f n * 2 ^ (8 * n) ≤ 255 * 2 ^ (8 * n) := Nat.mul_le_mul_right _ (by omega)
    omega

theorem leN_inj (f g : Nat → Nat) (n : Nat) (hf : ∀ i, i < n → f i < 256) (hg : ∀ i, i < n → g i < 256)
    (h : leN f n = leN g n) : ∀ i, i < n → f i = g i := by
  induction n with
  | zero => intro i hi; omega
  | succ n ih =>
    have lf := leN_lt f n (fun i hi => hf i (by omega))
    have lg := leN_lt g n (fun i hi => hg i (by omega))
    simp only [leN] at h
    have hpos : 0 < 2 ^ (8 * n) := Nat.pow_pos (by omega)
    have e1 : f n = g n := by
      have := congrArg (fun z => z / 2 ^ (8 * n)) h
      rw [Nat.add_mul_div_right _ _ hpos, Nat.add_mul_div_right _ _ hpos, Nat.div_eq_of_lt lf, Nat.div_eq_of_lt lg] at this
      omega
    have e2 : leN f n = leN g n := by rw [e1] at h; omega
    intro i hi
    by_cases hin : i = n
    · subst hin; exact e1
    · exact ih (fun i hi => hf i (by omega)) (fun i hi => hg i (by omega)) e2 i (by omega)

theorem list_ext_getD (a b : List Nat) (hl : a.length = b.length) (h : ∀ i, i < a.length → a.getD i 0 = b.getD i 0) : a = b := by
  apply List.ext_getElem hl
  intro i h1 h2
  have := h i h1
  simp only [List.getD_eq_getElem?_getD, List.getElem?_eq_getElem h1, List.getElem?_eq_getElem h2, Option.getD_some] at this
  exact this

/-- two elements have the same 32-byte encoding exactly when they stand for the same residue -/
theorem Bytes_eq_iff (v u : Element) (hv : Word v) (hu : Word u) :
    FeLimbs.Bytes v = FeLimbs.Bytes u ↔ val v % P = val u % P := by
  obtain ⟨lv, bv, ev⟩ := Bytes_spec v hv
  obtain ⟨lu, bu, eu⟩ := Bytes_spec u hu
  constructor
  · intro h; rw [← ev, ← eu, h]
  · intro h
    apply list_ext_getD _ _ (by rw [lv, lu])
    intro i hi
    exact leN_inj _ _ 32 bv bu (by rw [ev, eu, h]) i (by omega)

/-- `Equal` -/
theorem Equal_spec (v u : Element) (hv : Word v) (hu : Word u) :
    Equal v u = if val v % P = val u % P then 1 else 0 := by
  simp only [Equal, U64.ctCompare, Bytes_eq_iff u v hu hv]
  by_cases h : val v % P = val u % P
  · simp [h]
  · have : ¬ (val u % P = val v % P) := fun e => h e.symm
    simp [h, this]

/-- `IsNegative`: the parity of the reduced value -/
theorem IsNegative_spec (v : Element) (hv : Word v) : IsNegative v = val v % P % 2 := by
  obtain ⟨hc, hval⟩ := reduce_spec v hv
  rw [← hval]
  simp only [IsNegative, FeLimbs.Bytes, bytes]
  generalize reduce v = t at hc
  simp only [U64.orAt, U64.lePut64, List.replicate, List.set, List.getD_cons_zero, List.getD_cons_succ, Nat.zero_or, U64.shl, Nat.reducePow,
    U64.ofInt, U64.and]
  obtain ⟨c0, c1, c2, c3, c4⟩ := hc
  rw [show (1 : Nat) = 2 ^ 1 - 1 from rfl, Nat.and_two_pow_sub_one_eq_mod]
  simp only [val]
  omega
end PatVerif.Proofs.FeBytes