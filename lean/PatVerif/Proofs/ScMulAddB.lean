import PatVerif.Proofs.ScMulAddBnd
/-! Written by lean/tools/scproof.py (interval analysis of scalar.go); every bound is checked here by `omega`. -/
namespace PatVerif.Proofs.ScMulAdd
open PatVerif PatVerif.Generated.ScLimbs PatVerif.Proofs.ScHelp
set_option maxRecDepth 16384
set_option maxHeartbeats 4000000

theorem scMulAdd_b3_spec (l : Limbs) (h : M2 l) :
    M3 (scMulAdd_b3 l) ∧ scMulAdd_b3_safe l ∧ (val (scMulAdd_b3 l) - val l) % L = 0 := by
  simp only [M2] at h
  simp only [M3, scMulAdd_b3, scMulAdd_b3_safe, val, L, Go.inI64, Go.ishr, Go.ishl]
  and_intros <;> first | trivial | omega

theorem scMulAdd_b4_spec (l : Limbs) (h : M3 l) :
    M4 (scMulAdd_b4 l) ∧ scMulAdd_b4_safe l ∧ (val (scMulAdd_b4 l) - val l) % L = 0 := by
  simp only [M3] at h
  simp only [M4, scMulAdd_b4, scMulAdd_b4_safe, val, L, Go.inI64, Go.ishr, Go.ishl]
  and_intros <;> first | trivial | omega

theorem scMulAdd_b5_spec (l : Limbs) (h : M4 l) :
    M5 (scMulAdd_b5 l) ∧ scMulAdd_b5_safe l ∧ (val (scMulAdd_b5 l) - val l) % L = 0 := by
  simp only [M4] at h
  simp only [M5, scMulAdd_b5, scMulAdd_b5_safe, val, L, Go.inI64, Go.ishr, Go.ishl]
  and_intros <;> first | trivial | omega

theorem scMulAdd_b6_spec (l : Limbs) (h : M5 l) :
    M6 (scMulAdd_b6 l) ∧ scMulAdd_b6_safe l ∧ (val (scMulAdd_b6 l) - val l) % L = 0 := by
  simp only [M5] at h
  simp only [M6, scMulAdd_b6, scMulAdd_b6_safe, val, L, Go.inI64, Go.ishr, Go.ishl]
  and_intros <;> first | trivial | omega

theorem scMulAdd_b7_spec (l : Limbs) (h : M6 l) :
    M7 (scMulAdd_b7 l) ∧ scMulAdd_b7_safe l ∧ (val (scMulAdd_b7 l) - val l) % L = 0 := by
  simp only [M6] at h
  simp only [M7, scMulAdd_b7, scMulAdd_b7_safe, val, L, Go.inI64, Go.ishr, Go.ishl]
  and_intros <;> first | trivial | omega

theorem scMulAdd_b8_spec (l : Limbs) (h : M7 l) :
    M8 (scMulAdd_b8 l) ∧ scMulAdd_b8_safe l ∧ (val (scMulAdd_b8 l) - val l) % L = 0 := by
  simp only [M7] at h
  simp only [M8, scMulAdd_b8, scMulAdd_b8_safe, val, L, Go.inI64, Go.ishr, Go.ishl]
  and_intros <;> first | trivial | omega

theorem scMulAdd_b9_spec (l : Limbs) (h : M8 l) :
    M9 (scMulAdd_b9 l) ∧ scMulAdd_b9_safe l ∧ (val (scMulAdd_b9 l) - val l) % L = 0 := by
  simp only [M8] at h
  simp only [M9, scMulAdd_b9, scMulAdd_b9_safe, val, L, Go.inI64, Go.ishr, Go.ishl]
  and_intros <;> first | trivial | omega

theorem scMulAdd_b10_spec (l : Limbs) (h : M9 l) :
    M10 (scMulAdd_b10 l) ∧ scMulAdd_b10_safe l ∧ (val (scMulAdd_b10 l) - val l) % L = 0 := by
  simp only [M9] at h
  simp only [M10, scMulAdd_b10, scMulAdd_b10_safe, val, L, Go.inI64, Go.ishr, Go.ishl]
  and_intros <;> first | trivial | omega

theorem scMulAdd_b11_spec (l : Limbs) (h : M10 l) :
    M11 (scMulAdd_b11 l) ∧ scMulAdd_b11_safe l ∧ (val (scMulAdd_b11 l) - val l) % L = 0 := by
  simp only [M10] at h
  simp only [M11, scMulAdd_b11, scMulAdd_b11_safe, val, L, Go.inI64, Go.ishr, Go.ishl]
  and_intros <;> first | trivial | omega

theorem scMulAdd_b12_spec (l : Limbs) (h : M11 l) :
    M12 (scMulAdd_b12 l) ∧ scMulAdd_b12_safe l ∧ (val (scMulAdd_b12 l) - val l) % L = 0 := by
  simp only [M11] at h
  simp only [M12, scMulAdd_b12, scMulAdd_b12_safe, val, L, Go.inI64, Go.ishr, Go.ishl]
  and_intros <;> first | trivial | omega

theorem scMulAdd_b13_spec (l : Limbs) (h : M12 l) :
    M13 (scMulAdd_b13 l) ∧ scMulAdd_b13_safe l ∧ (val (scMulAdd_b13 l) - val l) % L = 0 := by
  simp only [M12] at h
  simp only [M13, scMulAdd_b13, scMulAdd_b13_safe, val, L, Go.inI64, Go.ishr, Go.ishl]
  and_intros <;> first | trivial | omega

theorem scMulAdd_b14_spec (l : Limbs) (h : M13 l) :
    M14 (scMulAdd_b14 l) ∧ scMulAdd_b14_safe l ∧ (val (scMulAdd_b14 l) - val l) % L = 0 := by
  simp only [M13] at h
  simp only [M14, scMulAdd_b14, scMulAdd_b14_safe, val, L, Go.inI64, Go.ishr, Go.ishl]
  and_intros <;> first | trivial | omega

theorem scMulAdd_b15_spec (l : Limbs) (h : M14 l) :
    M15 (scMulAdd_b15 l) ∧ scMulAdd_b15_safe l ∧ (val (scMulAdd_b15 l) - val l) % L = 0 := by
  simp only [M14] at h
  simp only [M15, scMulAdd_b15, scMulAdd_b15_safe, val, L, Go.inI64, Go.ishr, Go.ishl]
  and_intros <;> first | trivial | omega

theorem scMulAdd_b16_spec (l : Limbs) (h : M15 l) :
    M16 (scMulAdd_b16 l) ∧ scMulAdd_b16_safe l ∧ (val (scMulAdd_b16 l) - val l) % L = 0 := by
  simp only [M15] at h
  simp only [M16, scMulAdd_b16, scMulAdd_b16_safe, val, L, Go.inI64, Go.ishr, Go.ishl]
  and_intros <;> first | trivial | omega

theorem scMulAdd_b17_spec (l : Limbs) (h : M16 l) :
    M17 (scMulAdd_b17 l) ∧ scMulAdd_b17_safe l ∧ (val (scMulAdd_b17 l) - val l) % L = 0 := by
  simp only [M16] at h
  simp only [M17, scMulAdd_b17, scMulAdd_b17_safe, val, L, Go.inI64, Go.ishr, Go.ishl]
  and_intros <;> first | trivial | omega

theorem scMulAdd_b18_spec (l : Limbs) (h : M17 l) :
    M18 (scMulAdd_b18 l) ∧ scMulAdd_b18_safe l ∧ (val (scMulAdd_b18 l) - val l) % L = 0 := by
  simp only [M17] at h
  simp only [M18, scMulAdd_b18, scMulAdd_b18_safe, val, L, Go.inI64, Go.ishr, Go.ishl]
  and_intros <;> first | trivial | omega

theorem scMulAdd_b19_spec (l : Limbs) (h : M18 l) :
    M19 (scMulAdd_b19 l) ∧ scMulAdd_b19_safe l ∧ (val (scMulAdd_b19 l) - val l) % L = 0 := by
  simp only [M18] at h
  simp only [M19, scMulAdd_b19, scMulAdd_b19_safe, val, L, Go.inI64, Go.ishr, Go.ishl]
  and_intros <;> first | trivial | omega

theorem scMulAdd_b20_spec (l : Limbs) (h : M19 l) :
    M20 (scMulAdd_b20 l) ∧ scMulAdd_b20_safe l ∧ (val (scMulAdd_b20 l) - val l) % L = 0 := by
  simp only [M19] at h
  simp only [M20, scMulAdd_b20, scMulAdd_b20_safe, val, L, Go.inI64, Go.ishr, Go.ishl]
  and_intros <;> first | trivial | omega

/-- the last fold and the last round of carries: the result is the canonical representative -/
theorem scMulAdd_final (l : Limbs) (h : M20 l) :
    RF (scMulAdd_b22 (scMulAdd_b21 l)) ∧ scMulAdd_b21_safe l ∧ scMulAdd_b22_safe (scMulAdd_b21 l) ∧
    (val (scMulAdd_b22 (scMulAdd_b21 l)) - val l) % L = 0 ∧ 0 ≤ val (scMulAdd_b22 (scMulAdd_b21 l)) ∧ val (scMulAdd_b22 (scMulAdd_b21 l)) < L := by
  simp only [M20] at h
  simp only [RF, scMulAdd_b22, scMulAdd_b21, scMulAdd_b21_safe, scMulAdd_b22_safe, val, L, Go.inI64, Go.ishr, Go.ishl]
  and_intros <;> first | trivial | omega

end PatVerif.Proofs.ScMulAdd
