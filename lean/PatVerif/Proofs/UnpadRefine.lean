import PatVerif.Model.Partial
import PatVerif.Model.Padding
/-!
# The index-walking loop of `unpadOriginName` computes `unpad`

`Partial.unpadLit` follows the Go text (walk down from the last index until a non-zero byte or the
front, then slice); `Padding.unpad` is the specification used by C20 (drop every trailing zero).
-/
namespace PatVerif.Proofs.UnpadRefine
open PatVerif PatVerif.Partial PatVerif.Padding

theorem unpad_snoc (q : Bytes) (x : UInt8) :
    unpad (q ++ [x]) = if x = 0 then unpad q else q ++ [x] := by
  unfold unpad
  rw [List.reverse_append]
  simp only [List.reverse_cons, List.reverse_nil, List.nil_append, List.singleton_append, stripZeros]
  split
  · rfl
  · simp

theorem index_append_left (q r : Bytes) (i : Nat) (h : i < q.length) : index (q ++ r) i = index q i := by
  unfold index
  rw [List.getElem?_append_left h]

/-- the loop only looks at positions `≤ last` -/
theorem loop_append (q r : Bytes) : ∀ fuel (last : Int), last < q.length →
    unpadLoop (q ++ r) fuel last = unpadLoop q fuel last := by
  intro fuel
  induction fuel with
  | zero => intro last _; rfl
  | succ fuel ih =>
    intro last hl
    unfold unpadLoop
    split
    · rfl
    · rename_i hneg
      rw [index_append_left q r last.toNat (by omega)]
      cases hi : index q last.toNat with
      | ok x =>
        simp only [Res.bind_ok]
        split
        · rfl
        · exact ih (last - 1) (by omega)
      | err => rfl
      | panic => rfl

theorem loop_snoc (q : Bytes) (x : UInt8)
    (ih : ∀ fuel, q.length + 1 ≤ fuel →
      ∃ n, unpadLoop q fuel ((q.length : Int) - 1) = .ok n ∧ n ≤ q.length ∧ q.take n = unpad q) :
    ∀ fuel, (q ++ [x]).length + 1 ≤ fuel →
      ∃ n, unpadLoop (q ++ [x]) fuel (((q ++ [x]).length : Int) - 1) = .ok n ∧ n ≤ (q ++ [x]).length ∧
        (q ++ [x]).take n = unpad (q ++ [x]) := by
  intro fuel hf
  have hlen : (q ++ [x]).length = q.length + 1 := by simp
  cases fuel with
  | zero => omega
  | succ f =>
    unfold unpadLoop
    have hneg : ¬ (((q ++ [x]).length : Int) - 1 < 0) := by rw [hlen]; omega
    rw [if_neg hneg]
    have htn : (((q ++ [x]).length : Int) - 1).toNat = q.length := by rw [hlen]; omega
    have hidx : index (q ++ [x]) q.length = .ok x := by
      unfold index; simp
    rw [htn, hidx]
    simp only [Res.bind_ok]
    by_cases hx : x = 0
    · have hx' : ¬ (x ≠ 0) := by simp [hx]
      rw [if_neg hx']
      have e : ((q ++ [x]).length : Int) - 1 - 1 = (q.length : Int) - 1 := by rw [hlen]; omega
      rw [e, loop_append q [x] f _ (by omega)]
      obtain ⟨n, hn, hle, ht⟩ := ih f (by rw [hlen] at hf; omega)
      refine ⟨n, hn, by rw [hlen]; omega, ?_⟩
      rw [unpad_snoc, if_pos hx, ← ht, List.take_append_of_le_length hle]
    · rw [if_pos hx]
      refine ⟨q.length + 1, rfl, by rw [hlen]; omega, ?_⟩
      rw [unpad_snoc, if_neg hx, ← hlen, List.take_length]

theorem loop_spec_rev (r : Bytes) : ∀ fuel, r.reverse.length + 1 ≤ fuel →
    ∃ n, unpadLoop r.reverse fuel ((r.reverse.length : Int) - 1) = .ok n ∧ n ≤ r.reverse.length ∧
      r.reverse.take n = unpad r.reverse := by
  induction r with
  | nil =>
    intro fuel hf
    refine ⟨0, ?_, by simp, by simp [unpad, stripZeros]⟩
    cases fuel with
    | zero => rfl
    | succ f => unfold unpadLoop; simp
  | cons x r ih =>
    rw [List.reverse_cons]
    exact loop_snoc r.reverse x ih

theorem loop_spec (p : Bytes) : ∀ fuel, p.length + 1 ≤ fuel →
    ∃ n, unpadLoop p fuel ((p.length : Int) - 1) = .ok n ∧ n ≤ p.length ∧ p.take n = unpad p := by
  have := loop_spec_rev p.reverse
  rw [List.reverse_reverse] at this
  exact this

/-- the literal model of `unpadOriginName` returns exactly the specified value -/
theorem unpadLit_eq (p : Bytes) : unpadLit p = .ok (unpad p) := by
  unfold unpadLit
  obtain ⟨n, hn, hle, ht⟩ := loop_spec p (p.length + 1) (Nat.le_refl _)
  rw [hn]
  simp only [Res.bind_ok]
  rw [slice_to _ _ hle, ht]

end PatVerif.Proofs.UnpadRefine
