import PatVerif.Proofs.FeHelp
namespace PatVerif.Proofs.FeCarry
open PatVerif PatVerif.Generated PatVerif.Generated.FeLimbs PatVerif.Proofs.FeHelp

theorem add_nowrap {x y : Nat} (h : x + y < 18446744073709551616) : U64.add x y = x + y := Nat.mod_eq_of_lt h
theorem mul_nowrap {x y : Nat} (h : x * y < 18446744073709551616) : U64.mul x y = x * y := Nat.mod_eq_of_lt h

theorem carryPropagateGeneric_spec (e : Element) (h : Word e) :
    Tight (carryPropagateGeneric e) ∧
    val e = val (carryPropagateGeneric e) + (e.l4 / 2251799813685248) * P := by
  obtain ⟨h0, h1, h2, h3, h4⟩ := h
  simp only [carryPropagateGeneric, and_mask, U64.shr, Nat.reducePow]
  rw [mul_nowrap (by omega), add_nowrap (by omega), add_nowrap (by omega), add_nowrap (by omega), add_nowrap (by omega), add_nowrap (by omega)]
  simp only [Tight, val, P]
  and_intros <;> omega

theorem carryPropagate_spec (e : Element) (h : Word e) :
    Tight (carryPropagate e) ∧ val e = val (carryPropagate e) + (e.l4 / 2251799813685248) * P := by
  simpa only [carryPropagate] using carryPropagateGeneric_spec e h

theorem reduce_spec (e : Element) (h : Word e) : Canon (reduce e) ∧ val (reduce e) = val e % P := by
  obtain ⟨ht, hv⟩ := carryPropagate_spec e h
  simp only [reduce]
  generalize carryPropagate e = t at ht hv
  generalize e.l4 / 2251799813685248 = k at hv
  obtain ⟨t0, t1, t2, t3, t4⟩ := t
  simp only [Tight] at ht
  obtain ⟨h0, h1, h2, h3, h4⟩ := ht
  simp only [and_mask, U64.shr, Nat.reducePow]
  simp (disch := omega) only [add_nowrap, mul_nowrap]
  generalize hc : (t4 + (t3 + (t2 + (t1 + (t0 + 19) / 2251799813685248) / 2251799813685248) / 2251799813685248) / 2251799813685248) / 2251799813685248 = c
  have hc1 : c = 0 ∨ c = 1 := by omega
  have key : ∀ r : Element, val ⟨t0, t1, t2, t3, t4⟩ = val r + c * P → val r < P → val r = val e % P := by
    intro r h1 h2
    rw [hv, h1, Nat.add_assoc, ← Nat.add_mul, Nat.add_mul_mod_self_right, Nat.mod_eq_of_lt h2]
  refine ⟨?_, key _ ?_ ?_⟩
  · simp only [Canon]; omega
  · simp only [val, P]; rcases hc1 with rfl | rfl <;> omega
  · simp only [val, P]; rcases hc1 with rfl | rfl <;> omega

/-- `Add`: no limb addition wraps, the result is tight and stands for the sum -/
theorem Add_spec (v a b : Element) (ha : Loose a) (hb : Loose b) :
    Tight (FeLimbs.Add v a b) ∧ val (FeLimbs.Add v a b) % P = (val a + val b) % P := by
  obtain ⟨a0, a1, a2, a3, a4⟩ := ha
  obtain ⟨b0, b1, b2, b3, b4⟩ := hb
  simp only [FeLimbs.Add]
  simp (disch := omega) only [add_nowrap]
  have hw : Word ⟨a.l0 + b.l0, a.l1 + b.l1, a.l2 + b.l2, a.l3 + b.l3, a.l4 + b.l4⟩ := by
    simp only [Word]; omega
  obtain ⟨ht, hv⟩ := carryPropagateGeneric_spec _ hw
  refine ⟨ht, ?_⟩
  have e : val a + val b = val ⟨a.l0 + b.l0, a.l1 + b.l1, a.l2 + b.l2, a.l3 + b.l3, a.l4 + b.l4⟩ := by
    simp only [val]; omega
  rw [e, hv, Nat.add_mul_mod_self_right]

theorem sub_nowrap {x y : Nat} (h : y ≤ x) (hx : x < 18446744073709551616) : U64.sub x y = x - y := by
  unfold U64.sub
  rw [Nat.mod_eq_of_lt (show y < 18446744073709551616 by omega)]
  omega

/-- `Subtract`: adding 2p limb-wise keeps every subtraction from wrapping; the result is tight and, plus `b`, stands for `a` -/
theorem Subtract_spec (v a b : Element) (ha : Loose a) (hb : Loose b) :
    Tight (Subtract v a b) ∧ (val (Subtract v a b) + val b) % P = val a % P := by
  obtain ⟨a0, a1, a2, a3, a4⟩ := ha
  obtain ⟨b0, b1, b2, b3, b4⟩ := hb
  simp only [Subtract]
  simp (disch := omega) only [add_nowrap, sub_nowrap]
  have hw : Word ⟨a.l0 + 4503599627370458 - b.l0, a.l1 + 4503599627370494 - b.l1, a.l2 + 4503599627370494 - b.l2,
      a.l3 + 4503599627370494 - b.l3, a.l4 + 4503599627370494 - b.l4⟩ := by
    simp only [Word]; omega
  obtain ⟨ht, hv⟩ := carryPropagate_spec _ hw
  refine ⟨ht, ?_⟩
  generalize carryPropagate _ = r at hv
  simp only at hv
  generalize (a.l4 + 4503599627370494 - b.l4) / 2251799813685248 = k at hv
  have e : val r + val b + k * P = val a + 2 * P := by
    simp only [val, P] at hv ⊢; omega
  have : (val r + val b + k * P) % P = (val a + 2 * P) % P := by rw [e]
  simpa only [Nat.add_mul_mod_self_right] using this

theorem feZero_loose : Loose feZero := by simp only [Loose, feZero]; omega
theorem feZero_val : val feZero = 0 := by simp [val, feZero]

/-- `Negate` -/
theorem Negate_spec (v a : Element) (ha : Loose a) :
    Tight (Negate v a) ∧ (val (Negate v a) + val a) % P = 0 := by
  simp only [Negate]
  have := Subtract_spec v feZero a feZero_loose ha
  rw [feZero_val] at this
  simpa using this
end PatVerif.Proofs.FeCarry
