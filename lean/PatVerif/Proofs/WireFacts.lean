import PatVerif.Generated.WireFacts
import PatVerif.Model.Structs
/-!
# The cryptobyte calls of the Go encoders and decoders are the codecs of the model

`Generated/WireFacts.lean` lists, for each fixed-layout wire structure, the calls its Go
`Marshal`/`Unmarshal` makes, in source order, with field names, widths and type tags as they are
in the source on this run. Each theorem below says that this sequence, interpreted by
`Model/WireEv.lean`, is the typed codec of `Model/Structs.lean`: the decoder accepts the same strings
and yields the same fields under the same names, the encoder emits the same bytes. A change of a
width, a tag, the order of two fields, a dropped emptiness or trailing-data check, or a dropped
cache reset changes the extracted sequence and breaks the theorem for that structure.
-/
namespace PatVerif.Proofs.WireFacts
open PatVerif PatVerif.Codec PatVerif.Structs PatVerif.WireEv PatVerif.Generated.WireFacts
set_option linter.unusedSimpArgs false
set_option linter.unusedVariables false

/-! ## Token -/

def recToken (t : Token) : Rec :=
  [("TokenType", .n t.tokenType), ("Nonce", .b t.nonce), ("Context", .b t.context), ("KeyID", .b t.keyId),
   ("Authenticator", .b t.auth)]

theorem token_decoder (nk : Nat) (b : Bytes) :
    runReads [.u16 "TokenType", .fixed 32 "Nonce", .fixed 32 "Context", .fixed 32 "KeyID", .fixed nk "Authenticator"] ([], b)
      = ((tokenCodec nk).dec b).map fun p => (recToken p.1, p.2) := by
  simp only [runReads, readStep, tokenCodec, iso, pair, u16, fixed]
  cases h1 : decU16 b with
  | none => simp
  | some p =>
    obtain ⟨t, r1⟩ := p
    cases h2 : readN 32 r1 with
    | none => simp [h2, rget, rset, rdel]
    | some q2 =>
      obtain ⟨n, r2⟩ := q2
      cases h3 : readN 32 r2 with
      | none => simp [h2, h3, rget, rset, rdel]
      | some q3 =>
        obtain ⟨c, r3⟩ := q3
        cases h4 : readN 32 r3 with
        | none => simp [h2, h3, h4, rget, rset, rdel]
        | some q4 =>
          obtain ⟨k, r4⟩ := q4
          cases h5 : readN nk r4 with
          | none => simp [h2, h3, h4, h5, rget, rset, rdel]
          | some q5 =>
            obtain ⟨a, r5⟩ := q5
            simp [h2, h3, h4, h5, rget, rset, rdel, recToken]

theorem type1_token (b : Bytes) :
    runReads type1_UnmarshalToken ([], b) = ((tokenCodec 48).dec b).map fun p => (recToken p.1, p.2) := token_decoder 48 b
theorem type2_token (b : Bytes) :
    runReads type2_UnmarshalToken ([], b) = ((tokenCodec 256).dec b).map fun p => (recToken p.1, p.2) := token_decoder 256 b
theorem type3_token (b : Bytes) :
    runReads type3_UnmarshalToken ([], b) = ((tokenCodec 256).dec b).map fun p => (recToken p.1, p.2) := token_decoder 256 b
theorem type5_token (b : Bytes) :
    runReads type5_UnmarshalToken ([], b) = ((tokenCodec 64).dec b).map fun p => (recToken p.1, p.2) := token_decoder 64 b

theorem token_marshal (t : Token) : runWrites token_Marshal (recToken t) = some t.marshal := by
  simp [token_Marshal, runWrites, writeStep, rget, recToken, Token.marshal, Token.authInput]

theorem token_authInput (t : Token) : runWrites token_AuthenticatorInput (recToken t) = some t.authInput := by
  simp [token_AuthenticatorInput, runWrites, writeStep, rget, recToken, Token.authInput]

/-! ## TokenRequest of types 1 and 2 -/

def recBasic (r : BasicReq) : Rec := [("TokenKeyID", .n r.keyId.toNat), ("BlindedReq", .b r.blinded)]

theorem basic_decoder (ty : Nat) (hty : ty < 65536) (n : Nat) (b : Bytes) :
    runReads [.resetRaw, .u16 "tokenType", .checkEq "tokenType" ty, .u8 "TokenKeyID", .fixed n "BlindedReq", .endLax] ([], b)
      = ((basicReqCodec ty hty n).dec b).map fun p => (recBasic p.1, p.2) := by
  simp only [runReads, readStep, basicReqCodec, iso, pair, tag16, u8, fixed]
  cases h1 : decU16 b with
  | none => simp
  | some p =>
    obtain ⟨t, r1⟩ := p
    by_cases ht : t = ty
    · cases r1 with
      | nil => simp [ht, rget, rset, rdel]
      | cons x r2 =>
        cases h2 : readN n r2 with
        | none => simp [ht, h2, rget, rset, rdel]
        | some q => obtain ⟨v, r3⟩ := q; simp [ht, h2, rget, rset, rdel, recBasic]
    · simp [ht, rget, rset, rdel]

theorem req1_unmarshal (b : Bytes) :
    runReads req1_Unmarshal ([], b) = (req1Codec.dec b).map fun p => (recBasic p.1, p.2) := basic_decoder 1 (by decide) 49 b
theorem req2_unmarshal (b : Bytes) :
    runReads req2_Unmarshal ([], b) = (req2Codec.dec b).map fun p => (recBasic p.1, p.2) := basic_decoder 2 (by decide) 256 b

theorem req1_marshal (r : BasicReq) : runWrites req1_Marshal (recBasic r) = some (req1Codec.enc r) := by
  simp [req1_Marshal, runWrites, writeStep, rget, recBasic, req1Codec, basicReqCodec, iso, pair, tag16, u8, fixed]
theorem req2_marshal (r : BasicReq) : runWrites req2_Marshal (recBasic r) = some (req2Codec.enc r) := by
  simp [req2_Marshal, runWrites, writeStep, rget, recBasic, req2Codec, basicReqCodec, iso, pair, tag16, u8, fixed]

/-! ## TokenRequest of type 3 -/

def recReq3 (r : Req3) : Rec :=
  [("RequestKey", .b r.requestKey), ("NameKeyID", .b r.nameKeyId), ("EncryptedTokenRequest", .b r.encrypted),
   ("Signature", .b r.signature)]

theorem req3_unmarshal (b : Bytes) :
    runReads req3_Unmarshal ([], b) = (req3Codec.dec b).map fun v => (recReq3 v, []) := by
  simp only [req3_Unmarshal, runReads, readStep, req3Codec, exact, req3Prefix, iso, pair, tag16, vec16, fixed]
  cases h1 : decU16 b with
  | none => simp
  | some p =>
    obtain ⟨t, r1⟩ := p
    by_cases ht : t = 3
    · cases h2 : readN 49 r1 with
      | none => simp [ht, h2, rget, rset, rdel]
      | some q2 =>
        obtain ⟨rk, r2⟩ := q2
        cases h3 : readN 32 r2 with
        | none => simp [ht, h2, h3, rget, rset, rdel]
        | some q3 =>
          obtain ⟨nk, r3⟩ := q3
          cases h4 : decU16 r3 with
          | none => simp [ht, h2, h3, h4, rget, rset, rdel]
          | some q4 =>
            obtain ⟨len, r4⟩ := q4
            cases h5 : readN len r4 with
            | none => simp [ht, h2, h3, h4, h5, rget, rset, rdel]
            | some q5 =>
              obtain ⟨ct, r5⟩ := q5
              by_cases he : ct = []
              · simp [ht, h2, h3, h4, h5, he, rget, rset, rdel]
              · have he' : ct.isEmpty = false := by cases ct <;> simp_all
                cases h6 : readN 96 r5 with
                | none => simp [ht, h2, h3, h4, h5, h6, he, he', rget, rset, rdel]
                | some q6 =>
                  obtain ⟨sg, r6⟩ := q6
                  cases r6 with
                  | nil => simp [ht, h2, h3, h4, h5, h6, he, he', rget, rset, rdel, recReq3]
                  | cons y r7 => simp [ht, h2, h3, h4, h5, h6, he, he', rget, rset, rdel]
    · simp [ht, rget, rset, rdel]

theorem req3_marshal (r : Req3) : runWrites req3_Marshal (recReq3 r) = some (req3Codec.enc r) := by
  simp [req3_Marshal, runWrites, writeStep, rget, recReq3, req3Codec, exact, req3Prefix, iso, pair, tag16, vec16, fixed]

/-! ## the encrypted inner request of type 3 -/

def recInner (r : Inner) : Rec :=
  [("tokenKeyId", .n r.keyId.toNat), ("blindedMsg", .b r.blindedMsg), ("paddedOrigin", .b r.paddedOrigin)]

theorem inner_unmarshal (b : Bytes) :
    runReads inner_Unmarshal ([], b) = (innerCodec.dec b).map fun p => (recInner p.1, p.2) := by
  simp only [inner_Unmarshal, runReads, readStep, innerCodec, iso, pair, u8, vec16, fixed]
  cases b with
  | nil => simp
  | cons x r1 =>
    cases h2 : readN 256 r1 with
    | none => simp [h2, rget, rset, rdel]
    | some q2 =>
      obtain ⟨bm, r2⟩ := q2
      cases h3 : decU16 r2 with
      | none => simp [h2, h3, rget, rset, rdel]
      | some q3 =>
        obtain ⟨len, r3⟩ := q3
        cases h4 : readN len r3 with
        | none => simp [h2, h3, h4, rget, rset, rdel]
        | some q4 =>
          obtain ⟨po, r4⟩ := q4
          simp [h2, h3, h4, rget, rset, rdel, recInner]

theorem inner_marshal (r : Inner) : runWrites inner_Marshal (recInner r) = some (innerCodec.enc r) := by
  simp [inner_Marshal, runWrites, writeStep, rget, recInner, innerCodec, iso, pair, u8, vec16, fixed]

/-! ## the encoding cache: every request decoder drops it first; every request encoder consults it first and fills it last -/

theorem decoders_reset_cache :
    decoderResetsCache req1_Unmarshal ∧ decoderResetsCache req2_Unmarshal ∧ decoderResetsCache req3_Unmarshal ∧
    decoderResetsCache inner_Unmarshal := by decide

theorem encoders_use_cache :
    encoderUsesCache req1_Marshal ∧ encoderUsesCache req2_Marshal ∧ encoderUsesCache req3_Marshal ∧
    encoderUsesCache inner_Marshal := by decide

end PatVerif.Proofs.WireFacts
