/-!
# Basic conventions of the pat-go model

* `Bytes` is a Go `[]byte` seen as a value (`List UInt8`).
* `Res α` is the outcome of a Go function: a value, an error/false result, or a runtime panic.
  Partial Go operations (indexing, slicing, `make` with a computed length, explicit `panic`)
  are partial in the model: they return `Res.panic` exactly where Go would panic, so that
  "never panics" is a theorem and not an artefact of totalisation.
-/
namespace PatVerif

abbrev Bytes := List UInt8

inductive Res (α : Type) where
  | ok (a : α)
  | err
  | panic
  deriving Repr, DecidableEq, Inhabited

namespace Res

def bind {α β : Type} (r : Res α) (f : α → Res β) : Res β :=
  match r with
  | ok a => f a
  | err => err
  | panic => panic

def map {α β : Type} (f : α → β) (r : Res α) : Res β :=
  match r with
  | ok a => ok (f a)
  | err => err
  | panic => panic

def isOk {α : Type} : Res α → Bool
  | ok _ => true
  | _ => false

def ofOption {α : Type} : Option α → Res α
  | some a => ok a
  | none => err

def toOption {α : Type} : Res α → Option α
  | ok a => some a
  | _ => none

@[simp] theorem bind_ok {α β : Type} (a : α) (f : α → Res β) : (ok a).bind f = f a := rfl
@[simp] theorem bind_err {α β : Type} (f : α → Res β) : (err : Res α).bind f = err := rfl
@[simp] theorem bind_panic {α β : Type} (f : α → Res β) : (panic : Res α).bind f = panic := rfl

end Res

/-- Go slice expression `b[lo:hi]` on a slice whose capacity equals its length
(all slices that reach the modelled decoders are viewed through `len`; spare capacity is
modelled separately in `Model/Slices.lean`). Panics when `lo > hi` or `hi > len`. -/
def slice (b : Bytes) (lo hi : Nat) : Res Bytes :=
  if lo ≤ hi ∧ hi ≤ b.length then .ok ((b.drop lo).take (hi - lo)) else .panic

theorem slice_from (b : Bytes) (n : Nat) (h : n ≤ b.length) : slice b n b.length = .ok (b.drop n) := by
  unfold slice; simp only [h, Nat.le_refl, and_self, ite_true]
  rw [List.take_of_length_le (by simp)]

theorem slice_to (b : Bytes) (n : Nat) (h : n ≤ b.length) : slice b 0 n = .ok (b.take n) := by
  unfold slice; simp [h]

theorem slice_ne_panic_iff (b : Bytes) (lo hi : Nat) : slice b lo hi ≠ .panic ↔ (lo ≤ hi ∧ hi ≤ b.length) := by
  unfold slice; split <;> simp_all

/-- Go index expression `b[i]`. -/
def index (b : Bytes) (i : Nat) : Res UInt8 :=
  match b[i]? with
  | some x => .ok x
  | none => .panic

/-- big-endian value of a byte string -/
def beNat : Bytes → Nat
  | [] => 0
  | b => b.foldl (fun acc x => acc * 256 + x.toNat) 0

/-- `n`-byte big-endian encoding of `v` (truncating, like Go's `byte(v >> k)` chains). -/
def beBytes : Nat → Nat → Bytes
  | 0, _ => []
  | n + 1, v => UInt8.ofNat (v / 256 ^ n % 256) :: beBytes n v

@[simp] theorem beBytes_length (n v : Nat) : (beBytes n v).length = n := by
  induction n with
  | zero => rfl
  | succ n ih => simp [beBytes, ih]

end PatVerif
