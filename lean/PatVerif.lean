import PatVerif.Basic
