package main

import (
	"crypto/rsa"
	"crypto/x509"
	"embed"
	"encoding/pem"
	"fmt"

	"github.com/cloudflare/circl/oprf"
	"github.com/cloudflare/pat-go/tokens/type3"
)

//go:embed testdata/*.pem
var testdata embed.FS

var rsaKeys []*rsa.PrivateKey

// rsaKey returns one of the fixed 2048-bit test keys (RSA key generation is nondeterministic
// even under a fixed reader, so the harness never generates RSA keys for compared ops).
func rsaKey(i int) *rsa.PrivateKey {
	if rsaKeys == nil {
		for k := 0; k < 4; k++ {
			b, err := testdata.ReadFile(fmt.Sprintf("testdata/rsa%d.pem", k))
			must(err)
			blk, _ := pem.Decode(b)
			key, err := x509.ParsePKCS1PrivateKey(blk.Bytes)
			must(err)
			rsaKeys = append(rsaKeys, key)
		}
	}
	return rsaKeys[i%len(rsaKeys)]
}

// oprfKey derives a VOPRF private key deterministically from a seed.
func oprfKey(suite oprf.Suite, seed []byte) *oprf.PrivateKey {
	k, err := oprf.DeriveKey(suite, oprf.VerifiableMode, seed, []byte("verif"))
	must(err)
	return k
}

// t3Env is a type-3 deployment: issuer (token key, name key, origins), and client secrets.
type t3Env struct {
	issuer *type3.RateLimitedIssuer
	key    *rsa.PrivateKey
}

func newT3Env(keyIdx int, origins ...string) *t3Env {
	key := rsaKey(keyIdx)
	iss := type3.NewRateLimitedIssuer(key)
	for _, o := range origins {
		must(iss.AddOrigin(o))
	}
	return &t3Env{issuer: iss, key: key}
}
