package main

import (
	"bytes"
	"crypto"
	"crypto/rsa"
	"crypto/sha256"
	"crypto/sha512"
	"fmt"
	"sort"
	"strconv"
	"strings"

	"github.com/cloudflare/circl/blindsign/blindrsa"
	"github.com/cloudflare/circl/group"
	"github.com/cloudflare/circl/oprf"
	"github.com/cloudflare/circl/zk/dleq"
	"github.com/cloudflare/pat-go/quicwire"
	"github.com/cloudflare/pat-go/tokens"
	"github.com/cloudflare/pat-go/tokens/type1"
	"github.com/cloudflare/pat-go/tokens/type2"
	"github.com/cloudflare/pat-go/tokens/type3"
	"github.com/cloudflare/pat-go/tokens/type5"
	"github.com/cloudflare/pat-go/util"
)

func sha256b(b []byte) []byte { h := sha256.Sum256(b); return h[:] }

func tokenInputRef(ty uint16, nonce, challenge, keyID []byte) []byte {
	out := []byte{byte(ty >> 8), byte(ty)}
	out = append(out, nonce...)
	out = append(out, sha256b(challenge)...)
	return append(out, keyID...)
}

func pssValid(pk *rsa.PublicKey, input, sig []byte) bool {
	h := sha512.Sum384(input)
	return rsa.VerifyPSS(pk, crypto.SHA384, h[:], sig, &rsa.PSSOptions{Hash: crypto.SHA384, SaltLength: 48}) == nil
}

func pssSign(sk *rsa.PrivateKey, input, salt []byte) []byte {
	h := sha512.Sum384(input)
	sig, err := rsa.SignPSS(bytes.NewReader(salt), sk, crypto.SHA384, h[:], &rsa.PSSOptions{SaltLength: 48, Hash: crypto.SHA384})
	must(err)
	return sig
}

var c10buf = make([]byte, 0, 4096)

// long-lived decode targets of the issuer side (one per token type for the whole run)
var (
	c01srv1 = &type1.BasicPrivateTokenRequest{}
	c01srv2 = &type2.BasicPublicTokenRequest{}
	c01srv5 = &type5.BatchedPrivateTokenRequest{}
)

// rejectedFirst hands damaged copies of an honest response to a finalizer before the genuine one is delivered: the last bit
// flipped (the DLEQ proof of types 1 and 5, the signature of type 2), and the response cut by one byte. It reports whether
// a damaged response was accepted; what matters to the caller is that the state still finalizes the genuine one afterwards.
func rejectedFirst(resp []byte, fin func([]byte) error) bool {
	if len(resp) == 0 {
		return false
	}
	flipped := append([]byte{}, resp...)
	flipped[len(flipped)-1] ^= 1
	accepted := false
	protect(func() string {
		if fin(flipped) == nil {
			accepted = true
		}
		return ""
	})
	protect(func() string { fin(resp[:len(resp)-1]); return "" })
	return accepted
}

func scribbleAll(bs ...[]byte) {
	for _, b := range bs {
		for i := range b {
			b[i] ^= 0xc3
		}
	}
}

func init() {
	props["C01"] = runC01
	props["C02"] = runC02
	props["C10"] = runC10
	props["C11"] = runC11

	// c01.t1 <challenge> <nonce> <fixed> <kid> <blinded> <prf> | <keyseed> <blind>
	replayers["c01.t1"] = func(c *Ctx, a []string) string {
		challenge, nonce, fixed, keyseed, blind := unhx(a[0]), unhx(a[1]), a[2] == "1", unhx(a[6]), unhx(a[7])
		iss := type1.NewBasicPrivateIssuer(oprfKey(oprf.SuiteP384, keyseed))
		reseedRand(c.Seed, "c01.t1:"+a[1])
		var st type1.BasicPrivateTokenRequestState
		var err error
		if fixed {
			st, err = type1.NewBasicPrivateClient().CreateTokenRequestWithBlind(challenge, nonce, iss.TokenKeyID(), iss.TokenKey(), blind)
		} else {
			st, err = type1.NewBasicPrivateClient().CreateTokenRequest(challenge, nonce, iss.TokenKeyID(), iss.TokenKey())
		}
		if err != nil {
			return "err-create"
		}
		scribbleAll(challenge, nonce, blind) // the caller reuses its argument buffers once the request exists
		wire := st.Request().Marshal()
		// the issuer decodes into one long-lived request value, as a server reusing its buffers would
		rq := c01srv1
		if !rq.Unmarshal(wire) {
			return "err-unmarshal"
		}
		resp, err := iss.Evaluate(rq)
		if err != nil {
			return "err-evaluate"
		}
		// a damaged response arrives first (proof bit flipped, then truncated): it is refused, and the state still finalizes
		// the genuine response afterwards (round 6)
		if rejectedFirst(resp, func(b []byte) error { _, err := st.FinalizeToken(b); return err }) {
			return "err-damaged-response-accepted"
		}
		tok, err := st.FinalizeToken(resp)
		if err != nil {
			return "err-finalize"
		}
		reqS := "*"
		if fixed {
			reqS = hxv(wire)
		}
		return fmt.Sprintf("ok req=%s tok=%s verify=%s", reqS, hxv(tok.Marshal()), b2s(iss.Verify(tok) == nil))
	}
	// c01.t2 <challenge> <nonce> <fixed> <kid> <blinded> <sig> | <keyidx> <blind> <salt>
	replayers["c01.t2"] = func(c *Ctx, a []string) string {
		challenge, nonce, fixed := unhx(a[0]), unhx(a[1]), a[2] == "1"
		ki, _ := strconv.Atoi(a[6])
		iss := type2.NewBasicPublicIssuer(rsaKey(ki))
		reseedRand(c.Seed, "c01.t2:"+a[1])
		var st type2.BasicPublicTokenRequestState
		var err error
		if fixed {
			st, err = type2.NewBasicPublicClient().CreateTokenRequestWithBlind(challenge, nonce, iss.TokenKeyID(), iss.TokenKey(), unhx(a[7]), unhx(a[8]))
		} else {
			st, err = type2.NewBasicPublicClient().CreateTokenRequest(challenge, nonce, iss.TokenKeyID(), iss.TokenKey())
		}
		if err != nil {
			return "err-create"
		}
		scribbleAll(challenge, nonce)
		wire := st.Request().Marshal()
		rq := c01srv2
		if !rq.Unmarshal(wire) {
			return "err-unmarshal"
		}
		resp, err := iss.Evaluate(rq)
		if err != nil {
			return "err-evaluate"
		}
		if rejectedFirst(resp, func(b []byte) error { _, err := st.FinalizeToken(b); return err }) {
			return "err-damaged-response-accepted"
		}
		tok, err := st.FinalizeToken(resp)
		if err != nil {
			return "err-finalize"
		}
		v := pssValid(iss.TokenKey(), tok.AuthenticatorInput(), tok.Authenticator)
		if fixed {
			return fmt.Sprintf("ok req=%s tok=%s verify=%s", hxv(wire), hxv(tok.Marshal()), b2s(v))
		}
		return fmt.Sprintf("ok req=* tok=%s* verify=%s", hxv(tok.Marshal()[:98]), b2s(v && len(tok.Authenticator) == 256))
	}
	// c01.t5 <challenge> <nonces> <fixed> <kid> <blinded list> <prf list> | <keyseed> <blinds>
	replayers["c01.t5"] = func(c *Ctx, a []string) string {
		challenge, nonces, fixed, keyseed := unhx(a[0]), unhxList(a[1]), a[2] == "1", unhx(a[6])
		iss := type5.NewBatchedPrivateIssuer(oprfKey(oprf.SuiteRistretto255, keyseed))
		reseedRand(c.Seed, "c01.t5:"+a[1])
		var st type5.BatchedPrivateTokenRequestState
		var err error
		if fixed {
			st, err = type5.NewBatchedPrivateClient().CreateTokenRequestWithBlinds(challenge, nonces, iss.TokenKeyID(), iss.TokenKey(), unhxList(a[7]))
		} else {
			st, err = type5.NewBatchedPrivateClient().CreateTokenRequest(challenge, nonces, iss.TokenKeyID(), iss.TokenKey())
		}
		if err != nil {
			return "err-create"
		}
		scribbleAll(challenge)
		scribbleAll(nonces...)
		for i := range nonces {
			nonces[i] = nil
		}
		wire := st.Request().Marshal()
		rq := c01srv5
		if !rq.Unmarshal(wire) {
			return "err-unmarshal"
		}
		resp, err := iss.Evaluate(rq)
		if err != nil {
			return "err-evaluate"
		}
		if rejectedFirst(resp, func(b []byte) error { _, err := st.FinalizeTokens(b); return err }) {
			return "err-damaged-response-accepted"
		}
		toks, err := st.FinalizeTokens(resp)
		if err != nil {
			return "err-finalize"
		}
		var ts [][]byte
		ok := true
		for _, t := range toks {
			ts = append(ts, t.Marshal())
			ok = ok && iss.Verify(t) == nil
		}
		reqS := "*"
		if fixed {
			reqS = hxv(wire)
		}
		return fmt.Sprintf("ok req=%s toks=%s verify=%s", reqS, hxList(ts), b2s(ok))
	}
	// c01.t3 <challenge> <nonce> <origin> <kid> | <envidx> <secret> <blind>
	replayers["c01.t3"] = func(c *Ctx, a []string) string {
		challenge, nonce, origin := unhx(a[0]), unhx(a[1]), string(unhx(a[2]))
		ei, _ := strconv.Atoi(a[4])
		e := getC07Env(c.Seed, ei, []string{"a.example"})
		if e.issuer.OriginIndexKey(origin) == nil {
			reseedRand(c.Seed, "c01.t3-origin:"+a[2])
			must(e.issuer.AddOrigin(origin))
		}
		// the issuer is long-lived: requests it refuses (unknown origin, undecryptable, truncated, not a request at all) come in
		// between the honest ones and must leave nothing behind (round 6)
		if other := "unregistered." + origin; e.issuer.OriginIndexKey(other) == nil {
			if bad, err := type3.NewRateLimitedClientFromSecret(unhx(a[5])).CreateTokenRequest(challenge, nonce, unhx(a[6]), e.issuer.TokenKeyID(), e.issuer.TokenKey(), other, e.issuer.NameKey()); err == nil {
				bw := bad.Request().Marshal()
				protect(func() string { e.issuer.Evaluate(bw); return "" })
				flipped := append([]byte{}, bw...)
				flipped[len(flipped)-100] ^= 1 // inside the encrypted part: HPKE open fails
				protect(func() string { e.issuer.Evaluate(flipped); return "" })
				protect(func() string { e.issuer.Evaluate(bw[:len(bw)/2]); return "" })
				protect(func() string { e.issuer.Evaluate([]byte{0, 3, 1, 2, 3}); return "" })
			}
		}
		reseedRand(c.Seed, "c01.t3:"+a[1])
		st, err := type3.NewRateLimitedClientFromSecret(unhx(a[5])).CreateTokenRequest(challenge, nonce, unhx(a[6]), e.issuer.TokenKeyID(), e.issuer.TokenKey(), origin, e.issuer.NameKey())
		if err != nil {
			return "err-create"
		}
		scribbleAll(challenge, nonce)
		wire := st.Request().Marshal()
		sent := append([]byte{}, wire...)
		resp, _, err := e.issuer.Evaluate(wire)
		if err != nil {
			return "err-evaluate"
		}
		tok, err := st.FinalizeToken(resp)
		if err != nil {
			return "err-finalize"
		}
		// the same request bytes delivered again (a retransmission): still an honest run
		if !bytes.Equal(wire, sent) {
			return "err-request-bytes-changed-by-evaluate"
		}
		resp2, _, err := e.issuer.Evaluate(wire)
		if err != nil {
			return "err-evaluate-retransmission"
		}
		if tok2, err := st.FinalizeToken(resp2); err != nil || !pssValid(e.issuer.TokenKey(), tok2.AuthenticatorInput(), tok2.Authenticator) {
			return "err-finalize-retransmission"
		}
		m := tok.Marshal()
		return fmt.Sprintf("ok size=%d tokpre=%s authlen=%d valid=%s", len(wire), hxv(m[:98]), len(tok.Authenticator), b2s(pssValid(e.issuer.TokenKey(), tok.AuthenticatorInput(), tok.Authenticator)))
	}
	// c02.fin <ty> <tokenInput> <recheck> <fin> <valid> <resp> (state: the stream's current one)
	replayers["c02.fin"] = func(c *Ctx, a []string) string {
		w := c.notes["c02world"].(*c03World)
		var tok tokens.Token
		var err error
		switch a[0] {
		case "1":
			tok, err = w.st1.FinalizeToken(unhx(a[5]))
		case "2":
			if len(a) > 6 && a[6] == "odd" {
				// a request created with a nonce / key id of unusual length (a[7..] = nonce keyid blind salt challenge)
				st, e := type2.NewBasicPublicClient().CreateTokenRequestWithBlind(unhx(a[11]), unhx(a[7]), unhx(a[8]), w.i2.TokenKey(), unhx(a[9]), unhx(a[10]))
				if e != nil {
					return "err-create"
				}
				tok, err = st.FinalizeToken(unhx(a[5]))
			} else {
				tok, err = w.st2.FinalizeToken(unhx(a[5]))
			}
		}
		if err != nil {
			return "err"
		}
		return "ok " + hxv(tok.Marshal())
	}
	// c10.verify <ty> <type> <nonce> <ctx> <keyid> <auth> <in> <prf> | <keyseed>
	replayers["c10.verify"] = func(c *Ctx, a []string) string {
		ty, _ := strconv.ParseUint(a[1], 10, 16)
		// the token's fields are views into one long-lived receive buffer that the next token overwrites
		nb, cb, kb, ab := unhx(a[2]), unhx(a[3]), unhx(a[4]), unhx(a[5])
		c10buf = append(append(append(append(c10buf[:0], nb...), cb...), kb...), ab...)
		o1, o2, o3 := len(nb), len(nb)+len(cb), len(nb)+len(cb)+len(kb)
		tok := tokens.Token{TokenType: uint16(ty), Nonce: c10buf[:o1:o1], Context: c10buf[o1:o2:o2], KeyID: c10buf[o2:o3:o3], Authenticator: c10buf[o3:]}
		var err error
		// one issuer object per key for the whole run: verification must not depend on what was verified before
		if a[0] == "1" {
			iss, ok := c10iss1[a[8]]
			if !ok {
				iss = type1.NewBasicPrivateIssuer(oprfKey(oprf.SuiteP384, unhx(a[8])))
				c10iss1[a[8]] = iss
			}
			err = iss.Verify(tok)
		} else {
			iss, ok := c10iss5[a[8]]
			if !ok {
				iss = type5.NewBatchedPrivateIssuer(oprfKey(oprf.SuiteRistretto255, unhx(a[8])))
				c10iss5[a[8]] = iss
			}
			err = iss.Verify(tok)
		}
		if err != nil {
			return "fail"
		}
		return "ok"
	}
	replayers["c11.vector"] = func(c *Ctx, a []string) string { return c11Vector(c, a) }
}

var c10iss1 = map[string]*type1.BasicPrivateIssuer{}
var c10iss5 = map[string]*type5.BatchedPrivateIssuer{}

func runC01(c *Ctx) {
	r := NewRng(c.Seed, "c01")
	chLens := []int{0, 1, 31, 32, 33, 55, 255, 1000, 65535}
	n := c.Pick(40, 1200)
	for i := 0; i < n; i++ {
		challenge := r.Bytes(chLens[i%len(chLens)])
		if len(challenge) > 1000 && i > 2*len(chLens) {
			challenge = r.Bytes(r.IntN(300))
		}
		nonce := r.Bytes(32)
		fixed := i%2 == 0
		// ---- type 1 ----
		keyseed := []byte(fmt.Sprintf("c01-key-%d", i%c.Pick(6, 40)))
		sk := oprfKey(oprf.SuiteP384, keyseed)
		pkEnc, _ := sk.Public().MarshalBinary()
		kid := sha256b(pkEnc)
		input := tokenInputRef(1, nonce, challenge, kid)
		blindS := group.P384.RandomNonZeroScalar(theRand)
		blind, _ := blindS.MarshalBinary()
		_, evr, err := oprf.NewVerifiableClient(oprf.SuiteP384, sk.Public()).DeterministicBlind([][]byte{input}, []oprf.Blind{blindS})
		must(err)
		blinded, _ := evr.Elements[0].MarshalBinaryCompress()
		prf, err := oprf.NewVerifiableServer(oprf.SuiteP384, sk).FullEvaluate(input)
		must(err)
		out := c.Run("c01.t1", hx(challenge), hx(nonce), b2s(fixed), hx(kid), hx(blinded), hx(prf), hx(keyseed), hx(blind))
		c.Count("t1:" + map[bool]string{true: "fixed-blind", false: "random-blind"}[fixed])
		c.Direct(strings.HasPrefix(out, "ok ") && strings.HasSuffix(out, "verify=1"), "honest type-1 issuance over the wire failed", map[string]any{"challenge_len": len(challenge), "nonce": hx(nonce), "keyseed": string(keyseed), "impl": out})
		c.Direct(tokField(out) == "tok="+hxv(append(append([]byte{}, input...), prf...)), "type-1 token is not type‖nonce‖SHA-256(challenge)‖key id‖VOPRF output", map[string]any{"challenge": hx(challenge), "nonce": hx(nonce), "keyseed": string(keyseed), "impl": out})
		// ---- type 2 ----
		ki := i % 4
		rk := rsaKey(ki)
		spki, _ := util.MarshalTokenKeyPSSOID(&rk.PublicKey)
		kid2 := sha256b(spki)
		input2 := tokenInputRef(2, nonce, challenge, kid2)
		b2 := r.Bytes(256)
		b2[0] &= 0x3f
		salt := r.Bytes(48)
		bm, _, err := blindrsa.NewVerifier(&rk.PublicKey, crypto.SHA384).FixedBlind(input2, b2, salt)
		if err != nil {
			continue
		}
		sig := pssSign(rk, input2, salt)
		out = c.Run("c01.t2", hx(challenge), hx(nonce), b2s(fixed), hx(kid2), hx(bm), hx(sig), strconv.Itoa(ki), hx(b2), hx(salt))
		c.Count("t2:" + map[bool]string{true: "fixed-blind", false: "random-blind"}[fixed])
		c.Direct(strings.HasPrefix(out, "ok ") && strings.HasSuffix(out, "verify=1"), "honest type-2 issuance over the wire failed", map[string]any{"challenge_len": len(challenge), "impl": out})
		c.Direct(strings.HasPrefix(tokField(out), "tok="+hxv(input2)), "type-2 token does not start with type‖nonce‖SHA-256(challenge)‖key id", map[string]any{"challenge": hx(challenge), "nonce": hx(nonce), "impl": out})
		// ---- type 5 ----
		nTok := 1 + i%c.Pick(8, 64)
		if i%5 != 0 {
			nTok = 1 + i%4
		}
		if i == 7 {
			nTok = 512 // the element list needs the 4-byte varint form from here on
		}
		if i == 9 {
			nTok = 513
		}
		sk5 := oprfKey(oprf.SuiteRistretto255, keyseed)
		pk5, _ := sk5.Public().MarshalBinary()
		kid5 := sha256b(pk5)
		var nonces, inputs, blinds, blindeds, prfs [][]byte
		var bs []oprf.Blind
		for k := 0; k < nTok; k++ {
			nk := r.Bytes(32)
			nonces = append(nonces, nk)
			in := tokenInputRef(5, nk, challenge, kid5)
			inputs = append(inputs, in)
			s := group.Ristretto255.RandomNonZeroScalar(theRand)
			sb, _ := s.MarshalBinary()
			blinds = append(blinds, sb)
			bs = append(bs, s)
			p, err := oprf.NewVerifiableServer(oprf.SuiteRistretto255, sk5).FullEvaluate(in)
			must(err)
			prfs = append(prfs, p)
		}
		_, ev5, err := oprf.NewVerifiableClient(oprf.SuiteRistretto255, sk5.Public()).DeterministicBlind(inputs, bs)
		must(err)
		for _, e := range ev5.Elements {
			eb, _ := e.MarshalBinaryCompress()
			blindeds = append(blindeds, eb)
		}
		out = c.Run("c01.t5", hx(challenge), hxList(nonces), b2s(fixed), hx(kid5), hxList(blindeds), hxList(prfs), hx(keyseed), hxList(blinds))
		c.Count(fmt.Sprintf("t5:n=%d", nTok))
		c.Direct(strings.HasPrefix(out, "ok ") && strings.HasSuffix(out, "verify=1"), "honest type-5 issuance over the wire failed", map[string]any{"n": nTok, "impl": out})
		var want5 [][]byte
		for k := range inputs {
			want5 = append(want5, append(append([]byte{}, inputs[k]...), prfs[k]...))
		}
		c.Direct(tokField(out) == "toks="+hxList(want5), "type-5 tokens are not type‖nonce_i‖SHA-256(challenge)‖key id‖VOPRF output, in nonce order", map[string]any{"n": nTok, "challenge": hx(challenge), "nonces": hxList(nonces), "impl": out})
		// ---- type 3 ----
		if i%2 == 0 {
			origin := r.Bytes([]int{0, 1, 14, 31, 32, 33, 63, 64, 70, 200, 8191, 8192, 8200}[i/2%13])
			// names are opaque strings: letters of both cases, digits, dots, a trailing dot, spaces, bytes ≥ 0x80 — never a trailing NUL
			alpha := []byte("abcdefghijklmnopqrstuvwxyzABCDEFGHIJKLMNOPQRSTUVWXYZ0123456789.-_/ \xc3\xa9")
			for k := range origin {
				origin[k] = alpha[int(origin[k])%len(alpha)]
			}
			e := getC07Env(c.Seed, i%2, []string{"a.example"})
			kid3 := e.issuer.TokenKeyID()
			out = c.Run("c01.t3", hx(challenge), hx(nonce), hx(origin), hx(kid3), strconv.Itoa(i%2), hx(r.Bytes(48)), hx(r.Bytes(48)))
			c.Count("t3")
			c.Direct(strings.HasPrefix(out, "ok ") && strings.HasSuffix(out, "valid=1"), "honest type-3 issuance over the wire failed", map[string]any{"origin_len": len(origin), "impl": out})
			c.Direct(strings.Contains(out, "tokpre="+hxv(tokenInputRef(3, nonce, challenge, kid3))+" authlen=256"), "type-3 token is not type‖nonce‖SHA-256(challenge)‖key id‖256-byte authenticator", map[string]any{"impl": out})
		}
	}
}

func runC10(c *Ctx) {
	r := NewRng(c.Seed, "c10")
	nKeys := c.Pick(3, 6)
	type issued struct {
		ty      int
		keyseed []byte
		tok     tokens.Token
	}
	var all []issued
	verify := func(kind string, ty int, keyseed []byte, t tokens.Token, expect string) {
		in := tokenInputRef(t.TokenType, nil, nil, nil)[:2]
		in = append(append(append(in, t.Nonce...), t.Context...), t.KeyID...)
		var prf []byte
		var err error
		if ty == 1 {
			prf, err = oprf.NewVerifiableServer(oprf.SuiteP384, oprfKey(oprf.SuiteP384, keyseed)).FullEvaluate(in)
		} else {
			prf, err = oprf.NewVerifiableServer(oprf.SuiteRistretto255, oprfKey(oprf.SuiteRistretto255, keyseed)).FullEvaluate(in)
		}
		must(err)
		out := c.Run("c10.verify", strconv.Itoa(ty), strconv.Itoa(int(t.TokenType)), hx(t.Nonce), hx(t.Context), hx(t.KeyID), hx(t.Authenticator), hx(in), hx(prf), hx(keyseed))
		c.Count(kind)
		inp := map[string]any{"kind": kind, "issuer_type": ty, "token": hx(t.Marshal()), "keyseed": string(keyseed), "impl": out}
		want := "fail"
		if bytes.Equal(prf, t.Authenticator) {
			want = "ok"
		}
		c.Direct(out == want, "Verify verdict differs from `authenticator == VOPRF(type‖nonce‖context‖key id)`", inp)
		if expect != "" {
			c.Direct(out == expect, "Verify: expected "+expect+" for "+kind, inp)
		}
	}
	for k := 0; k < nKeys; k++ {
		keyseed := []byte(fmt.Sprintf("c10-key-%d", k))
		for _, ty := range []int{1, 5} {
			reseedRand(c.Seed, fmt.Sprintf("c10-%d-%d", k, ty))
			nonce, ch := r.Bytes(32), r.Bytes(r.IntN(40))
			var tok tokens.Token
			if ty == 1 {
				iss := type1.NewBasicPrivateIssuer(oprfKey(oprf.SuiteP384, keyseed))
				st, err := type1.NewBasicPrivateClient().CreateTokenRequest(ch, nonce, iss.TokenKeyID(), iss.TokenKey())
				must(err)
				resp, err := iss.Evaluate(st.Request())
				must(err)
				tok, err = st.FinalizeToken(resp)
				must(err)
			} else {
				iss := type5.NewBatchedPrivateIssuer(oprfKey(oprf.SuiteRistretto255, keyseed))
				st, err := type5.NewBatchedPrivateClient().CreateTokenRequest(ch, [][]byte{nonce}, iss.TokenKeyID(), iss.TokenKey())
				must(err)
				resp, err := iss.Evaluate(st.Request())
				must(err)
				ts, err := st.FinalizeTokens(resp)
				must(err)
				tok = ts[0]
			}
			all = append(all, issued{ty, keyseed, tok})
			if k%2 == 1 {
				// a forgery presented first must not change what happens to the honest token afterwards
				f := tok
				f.Context = append([]byte{tok.Context[0] ^ 1}, tok.Context[1:]...)
				verify("forgery-first", ty, keyseed, f, "fail")
			}
			verify("honest", ty, keyseed, tok, "ok")
			// every single-bit variant (sampled in quick)
			enc := tok.Marshal()
			stride := c.Pick(11, 1)
			for bit := r.IntN(stride); bit < len(enc)*8; bit += stride {
				m := append([]byte{}, enc...)
				m[bit/8] ^= 1 << (bit % 8)
				nkk := len(enc) - 98
				t2 := tokens.Token{TokenType: uint16(m[0])<<8 | uint16(m[1]), Nonce: m[2:34], Context: m[34:66], KeyID: m[66:98], Authenticator: m[98 : 98+nkk]}
				verify("flip", ty, keyseed, t2, "fail")
				// the same variant as it arrives: through the type's own token decoder, then Verify
				c10Wire(c, ty, keyseed, m, enc)
			}
			c10Wire(c, ty, keyseed, enc, enc)
			c10KeyObject(c, r, ty, k)
			// authenticators changed in several bytes at once (differences that cancel under a sum, an xor-fold, or a
			// comparison that stops early or looks at part of the string), and proper prefixes/suffixes
			{
				au := tok.Authenticator
				n := len(au)
				multi := map[string][]byte{}
				mk := func(name string, f func(b []byte)) {
					b := append([]byte{}, au...)
					f(b)
					multi[name] = b
				}
				i, j := r.IntN(n), r.IntN(n-1)
				if j >= i {
					j++
				}
				mk("two-bytes-bit7", func(b []byte) { b[i] ^= 0x80; b[j] ^= 0x80 })
				mk("two-bytes-same-xor", func(b []byte) { x := byte(1 + r.IntN(255)); b[i] ^= x; b[j] ^= x })
				mk("four-bytes-bit6", func(b []byte) {
					for k := 0; k < 4; k++ {
						b[(i+k*7)%n] ^= 0x40
					}
				})
				mk("all-bytes-xor-04", func(b []byte) {
					for k := range b {
						b[k] ^= 0x04
					}
				})
				mk("all-bytes-xor-80", func(b []byte) {
					for k := range b {
						b[k] ^= 0x80
					}
				})
				mk("complement", func(b []byte) {
					for k := range b {
						b[k] = ^b[k]
					}
				})
				mk("swap-two-bytes", func(b []byte) { b[i], b[j] = b[j], b[i] })
				mk("reversed", func(b []byte) {
					for x, y := 0, n-1; x < y; x, y = x+1, y-1 {
						b[x], b[y] = b[y], b[x]
					}
				})
				mk("first-half-only-right", func(b []byte) { copy(b[n/2:], r.Bytes(n-n/2)) })
				mk("second-half-only-right", func(b []byte) { copy(b[:n/2], r.Bytes(n/2)) })
				mk("last-byte-wrong", func(b []byte) { b[n-1] ^= byte(1 + r.IntN(255)) })
				mk("add-one-sub-one", func(b []byte) { b[i]++; b[j]-- })
				var names []string
				for k := range multi {
					names = append(names, k)
				}
				sort.Strings(names)
				for _, k := range names {
					if bytes.Equal(multi[k], au) {
						continue
					}
					t2 := tok
					t2.Authenticator = multi[k]
					verify("auth:"+k, ty, keyseed, t2, "fail")
				}
			}
			// authenticator and field lengths
			for _, l := range []int{0, len(tok.Authenticator) - 1, len(tok.Authenticator) + 1} {
				t2 := tok
				t2.Authenticator = append(append([]byte{}, tok.Authenticator...), 0)[:l]
				verify("auth-length", ty, keyseed, t2, "fail")
			}
			t2 := tok
			t2.Nonce = tok.Nonce[:31]
			verify("field-length", ty, keyseed, t2, "fail")
			// over-long fields: the input is the concatenation as carried, whatever its length; an authenticator for the
			// empty input (or for the first 98 bytes) is not one for this token
			for _, grow := range []int{1, 34, 200} {
				t3 := tok
				t3.KeyID = append(append([]byte{}, tok.KeyID...), r.Bytes(grow)...)
				verify("field-overlong:honest-auth", ty, keyseed, t3, "fail")
				t3.Authenticator = c10PRF(ty, keyseed, nil)
				verify("field-overlong:auth-of-empty-input", ty, keyseed, t3, "fail")
				t3.Authenticator = c10PRF(ty, keyseed, t3.AuthenticatorInput())
				verify("field-overlong:auth-of-carried-input", ty, keyseed, t3, "ok")
				t3.Authenticator = c10PRF(ty, keyseed, t3.AuthenticatorInput()[:98])
				verify("field-overlong:auth-of-truncated-input", ty, keyseed, t3, "fail")
			}
			t2 = tok
			t2.Nonce = append(append([]byte{}, tok.Nonce...), tok.Context[0])
			t2.Context = tok.Context[1:]
			// same concatenation, different field boundaries: the input is unchanged, so this verifies — the
			// wire decoder can never produce it (fixed widths); recorded, not a violation
			verify("boundary-shift", ty, keyseed, t2, "")
		}
	}
	// honest tokens again, after everything else was presented to the same issuer objects
	for _, a := range all {
		verify("honest-again", a.ty, a.keyseed, a.tok, "ok")
	}
	// (token, key) matrix incl. the other type's issuer
	for _, a := range all {
		for _, b := range all {
			if a.ty == b.ty && bytes.Equal(a.keyseed, b.keyseed) {
				continue
			}
			verify("foreign-key-or-type", b.ty, b.keyseed, a.tok, "fail")
		}
	}
}

// c10Wire: a token as it arrives on the wire goes through the type's own decoder and then Verify; what verifies is
// exactly the encoding that was issued (every bit of the fixed-width encoding is a bit of a field).
func c10Wire(c *Ctx, ty int, keyseed, wire, issued []byte) {
	verdict := "undecodable"
	if Try(func() {
		var tok tokens.Token
		var err error
		if ty == 1 {
			tok, err = type1.UnmarshalPrivateToken(wire)
		} else {
			tok, err = type5.UnmarshalBatchedPrivateToken(wire)
		}
		if err != nil {
			return
		}
		ks := hx(keyseed)
		if ty == 1 {
			iss, ok := c10iss1[ks]
			if !ok {
				iss = type1.NewBasicPrivateIssuer(oprfKey(oprf.SuiteP384, keyseed))
				c10iss1[ks] = iss
			}
			err = iss.Verify(tok)
		} else {
			iss, ok := c10iss5[ks]
			if !ok {
				iss = type5.NewBatchedPrivateIssuer(oprfKey(oprf.SuiteRistretto255, keyseed))
				c10iss5[ks] = iss
			}
			err = iss.Verify(tok)
		}
		verdict = "fail"
		if err == nil {
			verdict = "ok"
		}
	}) {
		verdict = "panic"
	}
	c.Count("wire:" + verdict)
	same := bytes.Equal(wire, issued)
	c.Direct((verdict == "ok") == same && verdict != "panic", "a token decoded from the wire and verified: only the issued encoding may verify",
		map[string]any{"issuer_type": ty, "keyseed": string(keyseed), "wire": hx(wire), "issued": hx(issued), "verdict": verdict})
}

// c10KeyObject: "that issuer's key" is one key for Evaluate and Verify alike. The caller's key object is decoded
// over with another key after the issuer was built (a key loader reusing its object). Whichever of the two keys the
// issuer then evaluates requests with (seen by multiplying the blinded element by each scalar directly), Verify
// accepts the authenticators of that key and rejects those of the other.
func c10KeyObject(c *Ctx, r *Rng, ty int, k int) {
	suite, g := oprf.SuiteP384, group.P384
	if ty == 5 {
		suite, g = oprf.SuiteRistretto255, group.Ristretto255
	}
	seedA, seedB := []byte(fmt.Sprintf("c10-obj-a-%d", k)), []byte(fmt.Sprintf("c10-obj-b-%d", k))
	obj := oprfKey(suite, seedA)
	encA, err := obj.MarshalBinary()
	must(err)
	encB, err := oprfKey(suite, seedB).MarshalBinary()
	must(err)
	nonce, ch := r.Bytes(32), r.Bytes(8)
	var blinded, evaluated []byte
	var verifyTok func(tokens.Token) error
	var kid []byte
	var evalErr error
	panicked := Try(func() {
		if ty == 1 {
			iss := type1.NewBasicPrivateIssuer(obj)
			st, err := type1.NewBasicPrivateClient().CreateTokenRequest(ch, nonce, iss.TokenKeyID(), iss.TokenKey())
			must(err)
			kid = iss.TokenKeyID()
			must(obj.UnmarshalBinary(suite, encB)) // the caller's object now holds another key
			blinded = st.Request().BlindedReq
			resp, err := iss.Evaluate(st.Request())
			evalErr = err
			if err == nil && len(resp) >= 49 {
				evaluated = resp[:49]
			}
			verifyTok = iss.Verify
		} else {
			iss := type5.NewBatchedPrivateIssuer(obj)
			st, err := type5.NewBatchedPrivateClient().CreateTokenRequest(ch, [][]byte{nonce}, iss.TokenKeyID(), iss.TokenKey())
			must(err)
			kid = iss.TokenKeyID()
			must(obj.UnmarshalBinary(suite, encB))
			blinded = st.Request().BlindedReq[0]
			resp, err := iss.Evaluate(st.Request())
			evalErr = err
			if err == nil && len(resp) >= 33 {
				evaluated = resp[1:33]
			}
			verifyTok = iss.Verify
		}
	})
	if panicked || evalErr != nil || evaluated == nil {
		c.Direct(false, "issuer fails after the caller's key object was decoded over", map[string]any{"issuer_type": ty, "k": k, "panicked": panicked, "err": fmt.Sprint(evalErr)})
		return
	}
	mul := func(scalarEnc []byte) []byte {
		e, sc := g.NewElement(), g.NewScalar()
		must(e.UnmarshalBinary(blinded))
		must(sc.UnmarshalBinary(scalarEnc))
		out, err := g.NewElement().Mul(e, sc).MarshalBinaryCompress()
		must(err)
		return out
	}
	evalKey := "neither"
	if bytes.Equal(evaluated, mul(encA)) {
		evalKey = "first"
	} else if bytes.Equal(evaluated, mul(encB)) {
		evalKey = "second"
	}
	tok := tokens.Token{TokenType: uint16(ty), Nonce: nonce, Context: r.Bytes(32), KeyID: kid}
	verdict := func(seed []byte) string {
		t := tok
		t.Authenticator = c10PRF(ty, seed, tok.AuthenticatorInput())
		out := "fail"
		if Try(func() {
			if verifyTok(t) == nil {
				out = "ok"
			}
		}) {
			out = "panic"
		}
		return out
	}
	vA, vB := verdict(seedA), verdict(seedB)
	c.Count("key-object-reused:evaluates-with-" + evalKey)
	want := map[string][2]string{"first": {"ok", "fail"}, "second": {"fail", "ok"}}[evalKey]
	c.Direct(evalKey != "neither" && vA == want[0] && vB == want[1],
		"after the caller's key object was decoded over with another key, Verify and Evaluate of one issuer use different keys",
		map[string]any{"issuer_type": ty, "seed_first": string(seedA), "seed_second": string(seedB), "evaluates_with": evalKey,
			"verify_authenticator_of_first": vA, "verify_authenticator_of_second": vB, "token_input": hx(tok.AuthenticatorInput())})
}

func runC02(c *Ctx) {
	r := NewRng(c.Seed, "c02")
	w := newC03World(c, r)
	c.notes["c02world"] = w
	defer delete(c.notes, "c02world")
	w2 := newC03World2(c, r) // a second deployment: other keys, other requests
	flipAll := func(b []byte, stride int, f func(kind string, m []byte)) {
		for bit := r.IntN(stride); bit < len(b)*8; bit += stride {
			m := append([]byte{}, b...)
			m[bit/8] ^= 1 << (bit % 8)
			f("flip", m)
		}
		for _, n := range []int{0, 1, len(b) / 2, len(b) - 1} {
			f("truncated", b[:n])
		}
		f("extended", append(append([]byte{}, b...), 0))
	}
	// ---- type 1 ----
	ti1 := tokenInputRef(1, bytes.Repeat([]byte{9}, 32), []byte("challenge"), w.i1.TokenKeyID())
	fin1 := func(kind string, resp []byte, mustReject bool) {
		fin, valid := "none", false
		if len(resp) >= 49 {
			// the circl client called directly on an independent split of the response
			e := group.P384.NewElement()
			pr := new(dleq.Proof)
			if e.UnmarshalBinary(resp[:49]) == nil && pr.UnmarshalBinary(group.P384, resp[49:]) == nil {
				outs, err := oprf.NewVerifiableClient(oprf.SuiteP384, w.i1.TokenKey()).Finalize(w.st1.ForTestsOnlyVerifier(),
					&oprf.Evaluation{Elements: []oprf.Evaluated{e}, Proof: pr})
				if err == nil {
					fin = hxv(outs[0])
				}
			}
		}
		if fin != "none" {
			valid = w.i1.Verify(tokens.Token{TokenType: 1, Nonce: ti1[2:34], Context: ti1[34:66], KeyID: ti1[66:98], Authenticator: unhx(fin)}) == nil
		}
		out := c.Run("c02.fin", "1", hx(ti1), "0", fin, b2s(valid), hx(resp))
		c.Count("t1:" + kind)
		c02Direct(c, w, 1, kind, resp, out, mustReject, ti1)
	}
	fin1("honest", w.resp["resp1"], false)
	flipAll(w.resp["resp1"], c.Pick(1, 1), func(k string, m []byte) { fin1(k, m, k != "extended") })
	fin1("foreign-key", w2.resp["resp1-otherkey"], true)
	fin1("foreign-request", w2.resp["resp1-otherreq"], true)
	// ---- type 2 ----
	ti2 := tokenInputRef(2, bytes.Repeat([]byte{9}, 32), []byte("challenge"), w.i2.TokenKeyID())
	fin2 := func(kind string, resp []byte, mustReject bool) {
		fin, valid := "none", false
		sig, err := w.st2.ForTestsOnlyVerifier().Finalize(resp)
		if err == nil {
			fin = hxv(sig)
			valid = pssValid(w.i2.TokenKey(), ti2, sig)
		}
		out := c.Run("c02.fin", "2", hx(ti2), "1", fin, b2s(valid), hx(resp))
		c.Count("t2:" + kind)
		c02Direct(c, w, 2, kind, resp, out, mustReject, ti2)
	}
	fin2("honest", w.resp["resp2"], false)
	flipAll(w.resp["resp2"], c.Pick(3, 1), func(k string, m []byte) { fin2(k, m, true) })
	fin2("foreign-key", w2.resp["resp2-otherkey"], true)
	fin2("foreign-request", w2.resp["resp2-otherreq"], true)
	// requests created with nonces / key ids of unusual length: the spliced token no longer parses at the
	// request's field boundaries, so the re-verification must fail and no token may be returned
	for _, shape := range [][2]int{{33, 32}, {34, 32}, {64, 32}, {31, 32}, {0, 32}, {32, 33}, {32, 31}} {
		nonce, kid := r.Bytes(shape[0]), append(append([]byte{}, w.i2.TokenKeyID()...), 7)[:shape[1]]
		blind := r.Bytes(256)
		blind[0] &= 0x3f
		salt, ch := r.Bytes(48), r.Bytes(9)
		st, err := type2.NewBasicPublicClient().CreateTokenRequestWithBlind(ch, nonce, kid, w.i2.TokenKey(), blind, salt)
		if err != nil {
			continue
		}
		resp, err := w.i2.Evaluate(st.Request())
		if err != nil {
			continue
		}
		ti := append(append(append([]byte{0, 2}, nonce...), sha256b(ch)...), kid...)
		fin, valid := "none", false
		if sig, err := st.ForTestsOnlyVerifier().Finalize(resp); err == nil {
			fin = hxv(sig)
			spliced := append(append([]byte{}, ti...), sig...)
			if len(spliced) >= 98+256 {
				valid = pssValid(w.i2.TokenKey(), spliced[:98], spliced[98:98+256])
			}
		}
		out := c.Run("c02.fin", "2", hx(ti), "1", fin, b2s(valid), hx(resp), "odd", hx(nonce), hx(kid), hx(blind), hx(salt), hx(ch))
		c.Count(fmt.Sprintf("t2:odd-shape/%d/%d", shape[0], shape[1]))
		if strings.HasPrefix(out, "ok ") {
			m := unhx(out[3:])
			okTok := len(m) == 98+256 && pssValid(w.i2.TokenKey(), m[:98], m[98:]) && bytes.Equal(m[2:34], nonce) && bytes.Equal(m[66:98], kid)
			c.Direct(okTok, "finalize returned a token that does not verify under the pinned key or does not carry the request's nonce and key id",
				map[string]any{"nonce_len": shape[0], "keyid_len": shape[1], "impl": out})
		}
	}
	// ---- type 3 and 5: direct oracles (finalize needs state held inside the client) ----
	probe := func(ty int, kind string, resp []byte, mustReject bool) {
		var toks []tokens.Token
		out := c.Op(fmt.Sprintf("c03.probe c02.finalize.type%d %s", ty, hx(resp)), func() string {
			if ty == 3 {
				t, err := w.st3.FinalizeToken(resp)
				if err == nil {
					toks = []tokens.Token{t}
				}
			} else {
				ts, err := w.st5.FinalizeTokens(resp)
				if err == nil {
					toks = ts
				}
			}
			return "-"
		})
		c.Count(fmt.Sprintf("t%d:%s", ty, kind))
		in := map[string]any{"type": ty, "kind": kind, "response": hx(resp)}
		if !c.DirectOK(out != "panic", "finalize panicked", in) {
			return
		}
		if mustReject {
			c.Direct(toks == nil, "a response that must be rejected ("+kind+") was finalized", in)
		} else if kind == "honest" || kind == "identity-rebuild" {
			c.Direct(toks != nil, "honest response rejected", in)
		}
		nonces := [][]byte{bytes.Repeat([]byte{9}, 32), bytes.Repeat([]byte{8}, 32), bytes.Repeat([]byte{7}, 32)}
		for k, t := range toks {
			okTok := false
			if ty == 3 {
				okTok = pssValid(w.env.issuer.TokenKey(), t.AuthenticatorInput(), t.Authenticator) && bytes.Equal(t.KeyID, w.env.issuer.TokenKeyID())
			} else {
				okTok = w.i5.Verify(t) == nil && bytes.Equal(t.KeyID, w.i5.TokenKeyID())
			}
			okTok = okTok && bytes.Equal(t.Nonce, nonces[k]) && bytes.Equal(t.Context, sha256b([]byte("challenge"))) && int(t.TokenType) == ty
			c.Direct(okTok, "finalize returned a token that does not verify under the pinned key or is not bound to its own request", in)
		}
	}
	probe(3, "honest", w.resp["resp3"], false)
	flipAll(w.resp["resp3"], c.Pick(3, 1), func(k string, m []byte) { probe(3, k, m, true) })
	probe(3, "foreign-request", w2.resp["resp3-otherreq"], true)
	probe(5, "honest", w.resp["resp5"], false)
	flipAll(w.resp["resp5"], c.Pick(1, 1), func(k string, m []byte) { probe(5, k, m, k != "extended") })
	probe(5, "foreign-key", w2.resp["resp5-otherkey"], true)
	// batch permutations: elements dropped, duplicated, rotated, swapped (proof kept)
	r5 := w.resp["resp5"]
	_, vn := quicwire.ConsumeVarint(r5)
	els := [][]byte{r5[vn : vn+32], r5[vn+32 : vn+64], r5[vn+64 : vn+96]}
	proof := r5[vn+96:]
	mk := func(es ...[]byte) []byte {
		body := bytes.Join(es, nil)
		return append(append(refEnc(uint64(len(body))), body...), proof...)
	}
	probe(5, "identity-rebuild", mk(els[0], els[1], els[2]), false)
	probe(5, "dropped", mk(els[0], els[1]), true)
	probe(5, "dropped-first", mk(els[1], els[2]), true)
	probe(5, "duplicated", mk(els[0], els[0], els[2]), true)
	probe(5, "rotated", mk(els[1], els[2], els[0]), true)
	probe(5, "swapped", mk(els[1], els[0], els[2]), true)
	probe(5, "extra", mk(els[0], els[1], els[2], els[0]), true)
	probe(5, "extra-junk", mk(els[0], els[1], els[2], r.Bytes(32)), true)
	probe(5, "repeated-batch", mk(els[0], els[1], els[2], els[0], els[1], els[2]), true)
	probe(5, "reversed", mk(els[2], els[1], els[0]), true)
	probe(5, "replaced-by-foreign", mk(els[0], els[1], w2.resp["resp5-otherkey"][vn:vn+32]), true)
	probe(5, "empty", mk(), true)

	// ---- the pinned key is the key object given at creation, not whatever a key id was first used with ----
	// two issuers whose requests carry the same (caller-supplied) key id, one after the other in one process
	type pinParty struct {
		name   string
		mk     func(nonce []byte) (fin func(resp []byte) ([]tokens.Token, error), req any)
		eval   func(req any) ([]byte, error)
		verify func(tokens.Token) bool
	}
	for round := 0; round < 2; round++ {
		kid := r.Bytes(32)
		ch := r.Bytes(12)
		mkParties := func(tag string) []pinParty {
			i1 := type1.NewBasicPrivateIssuer(oprfKey(oprf.SuiteP384, []byte("c02-pin-1"+tag)))
			i5 := type5.NewBatchedPrivateIssuer(oprfKey(oprf.SuiteRistretto255, []byte("c02-pin-5"+tag)))
			i2 := type2.NewBasicPublicIssuer(rsaKey(map[string]int{"A": 0, "B": 1}[tag]))
			return []pinParty{
				{"type1", func(nonce []byte) (func([]byte) ([]tokens.Token, error), any) {
					st, err := type1.NewBasicPrivateClient().CreateTokenRequest(ch, nonce, kid, i1.TokenKey())
					must(err)
					return func(resp []byte) ([]tokens.Token, error) { t, e := st.FinalizeToken(resp); return []tokens.Token{t}, e }, st.Request()
				}, func(q any) ([]byte, error) { return i1.Evaluate(q.(*type1.BasicPrivateTokenRequest)) }, func(t tokens.Token) bool { return i1.Verify(t) == nil }},
				{"type2", func(nonce []byte) (func([]byte) ([]tokens.Token, error), any) {
					st, err := type2.NewBasicPublicClient().CreateTokenRequest(ch, nonce, kid, i2.TokenKey())
					must(err)
					return func(resp []byte) ([]tokens.Token, error) { t, e := st.FinalizeToken(resp); return []tokens.Token{t}, e }, st.Request()
				}, func(q any) ([]byte, error) { return i2.Evaluate(q.(*type2.BasicPublicTokenRequest)) },
					func(t tokens.Token) bool { return pssValid(i2.TokenKey(), t.AuthenticatorInput(), t.Authenticator) }},
				{"type5", func(nonce []byte) (func([]byte) ([]tokens.Token, error), any) {
					st, err := type5.NewBatchedPrivateClient().CreateTokenRequest(ch, [][]byte{nonce}, kid, i5.TokenKey())
					must(err)
					return st.FinalizeTokens, st.Request()
				}, func(q any) ([]byte, error) { return i5.Evaluate(q.(*type5.BatchedPrivateTokenRequest)) }, func(t tokens.Token) bool { return i5.Verify(t) == nil }},
			}
		}
		A, B := mkParties("A"), mkParties("B")
		for k := range A {
			name := A[k].name
			out := c.Op(fmt.Sprintf("c03.probe c02.pinned-key %s %s", name, hx(kid)), func() string {
				nA, nB := r.Bytes(32), r.Bytes(32)
				finA, reqA := A[k].mk(nA)
				respA, err := A[k].eval(reqA)
				must(err)
				ta, err := finA(respA)
				if err != nil || !A[k].verify(ta[0]) || !bytes.Equal(ta[0].Nonce, nA) {
					return "first key: honest response rejected or token invalid"
				}
				// a second key under the same key id: its honest response finalizes to a token valid under it …
				finB, reqB := B[k].mk(nB)
				respB, err := B[k].eval(reqB)
				must(err)
				tb, err := finB(respB)
				if err != nil {
					return "second key with the same key id: honest response rejected"
				}
				if !B[k].verify(tb[0]) || !bytes.Equal(tb[0].Nonce, nB) || !bytes.Equal(tb[0].KeyID, kid) {
					return "second key with the same key id: the returned token does not verify under the key the request was created for"
				}
				// … and a response to that request computed by the first issuer (same key id, so it serves it) does not
				if respBA, err := A[k].eval(reqB); err == nil {
					if tx, err := finB(respBA); err == nil && !B[k].verify(tx[0]) {
						return "a response computed under another key with the same key id was finalized into a token that does not verify under the pinned key"
					}
				}
				return "-"
			})
			c.Count("pinned-key:" + name)
			c.Direct(out == "-", "finalization is not bound to the key the request was created for: "+out, map[string]any{"type": name, "keyId": hx(kid), "panic": firstLines(lastPanic, 6)})
		}
	}
	c02Scribbled(c, r)
	// issuer keys of other legal sizes (the token format carries a 256-byte authenticator): whatever finalization returns
	// without an error verifies under the key and carries the request
	for _, bits := range []int{3072, 4096, 1024} {
		if bits == 4096 && !c.Thorough() {
			continue
		}
		out := c.Op(fmt.Sprintf("c03.probe c02.rsa-size %d", bits), func() string {
			key, err := rsa.GenerateKey(realRand, bits)
			must(err)
			iss := type2.NewBasicPublicIssuer(key)
			ch, nonce := r.Bytes(10), r.Bytes(32)
			st, err := type2.NewBasicPublicClient().CreateTokenRequest(ch, nonce, iss.TokenKeyID(), iss.TokenKey())
			if err != nil {
				return "-"
			}
			resp, err := iss.Evaluate(st.Request())
			if err != nil {
				return "-"
			}
			t, err := st.FinalizeToken(resp)
			if err != nil {
				return "-"
			}
			if !pssValid(&key.PublicKey, t.AuthenticatorInput(), t.Authenticator) || !bytes.Equal(t.Nonce, nonce) {
				return fmt.Sprintf("finalization succeeded with a token that does not verify under the %d-bit issuer key (authenticator of %d bytes)", bits, len(t.Authenticator))
			}
			return "-"
		})
		c.Count(fmt.Sprintf("rsa-size:%d", bits))
		c.Direct(out == "-", "issuer key size: "+out, map[string]any{"bits": bits, "panic": firstLines(lastPanic, 6)})
	}
}

// c02Scribbled: the caller overwrites every argument buffer right after creating the request (a client that reads the
// next request's nonce into the same scratch buffers): the token finalized later is still the one of the request.
func c02Scribbled(c *Ctx, r *Rng) {
	i1 := type1.NewBasicPrivateIssuer(oprfKey(oprf.SuiteP384, []byte("c02-scr-1")))
	i5 := type5.NewBatchedPrivateIssuer(oprfKey(oprf.SuiteRistretto255, []byte("c02-scr-5")))
	i2 := type2.NewBasicPublicIssuer(rsaKey(2))
	env := getC07Env(c.Seed, 7, []string{"origin.example"})
	cl3 := newT3Client(r)
	scr := func(bs ...[]byte) {
		for _, b := range bs {
			for i := range b {
				b[i] ^= 0x5a
			}
		}
	}
	for _, ty := range []int{1, 2, 3, 5} {
		out := c.Op(fmt.Sprintf("c03.probe c02.scribbled-args type%d", ty), func() string {
			ch, nonce, nonce2 := r.Bytes(20), r.Bytes(32), r.Bytes(32)
			ch0, n0, n20 := append([]byte{}, ch...), append([]byte{}, nonce...), append([]byte{}, nonce2...)
			check := func(t tokens.Token, wantNonce []byte, kid []byte, verify func(tokens.Token) bool) string {
				cd := sha256.Sum256(ch0)
				if !bytes.Equal(t.Nonce, wantNonce) || !bytes.Equal(t.Context, cd[:]) || !bytes.Equal(t.KeyID, kid) {
					return "the token does not carry the request's nonce, challenge digest and key id"
				}
				if !verify(t) {
					return "the token does not verify"
				}
				return "-"
			}
			switch ty {
			case 1:
				kid := i1.TokenKeyID()
				kid0 := append([]byte{}, kid...)
				st, err := type1.NewBasicPrivateClient().CreateTokenRequest(ch, nonce, kid, i1.TokenKey())
				must(err)
				scr(ch, nonce, kid)
				resp, err := i1.Evaluate(st.Request())
				must(err)
				t, err := st.FinalizeToken(resp)
				if err != nil {
					return "honest response rejected"
				}
				return check(t, n0, kid0, func(t tokens.Token) bool { return i1.Verify(t) == nil })
			case 2:
				kid := i2.TokenKeyID()
				kid0 := append([]byte{}, kid...)
				st, err := type2.NewBasicPublicClient().CreateTokenRequest(ch, nonce, kid, i2.TokenKey())
				must(err)
				scr(ch, nonce, kid)
				resp, err := i2.Evaluate(st.Request())
				must(err)
				t, err := st.FinalizeToken(resp)
				if err != nil {
					return "honest response rejected"
				}
				return check(t, n0, kid0, func(t tokens.Token) bool { return pssValid(i2.TokenKey(), t.AuthenticatorInput(), t.Authenticator) })
			case 3:
				kid := env.issuer.TokenKeyID()
				kid0 := append([]byte{}, kid...)
				blind := append([]byte{}, cl3.blind...)
				st, err := type3.NewRateLimitedClientFromSecret(cl3.secret).CreateTokenRequest(ch, nonce, blind, kid, env.issuer.TokenKey(), "origin.example", env.issuer.NameKey())
				must(err)
				enc := append([]byte{}, st.Request().Marshal()...)
				scr(ch, nonce, kid, blind)
				resp, _, err := env.issuer.Evaluate(enc)
				must(err)
				t, err := st.FinalizeToken(resp)
				if err != nil {
					return "honest response rejected"
				}
				return check(t, n0, kid0, func(t tokens.Token) bool {
					return pssValid(env.issuer.TokenKey(), t.AuthenticatorInput(), t.Authenticator)
				})
			default:
				kid := i5.TokenKeyID()
				kid0 := append([]byte{}, kid...)
				nonces := [][]byte{nonce, nonce2}
				st, err := type5.NewBatchedPrivateClient().CreateTokenRequest(ch, nonces, kid, i5.TokenKey())
				must(err)
				scr(ch, nonce, nonce2, kid)
				nonces[0], nonces[1] = nil, nil
				resp, err := i5.Evaluate(st.Request())
				must(err)
				ts, err := st.FinalizeTokens(resp)
				if err != nil || len(ts) != 2 {
					return "honest response rejected"
				}
				if v := check(ts[0], n0, kid0, func(t tokens.Token) bool { return i5.Verify(t) == nil }); v != "-" {
					return v
				}
				return check(ts[1], n20, kid0, func(t tokens.Token) bool { return i5.Verify(t) == nil })
			}
		})
		c.Count(fmt.Sprintf("scribbled-args:type%d", ty))
		c.Direct(out == "-", "after the caller reused its argument buffers: "+out, map[string]any{"type": ty, "panic": firstLines(lastPanic, 6)})
	}
}

// c10PRF: the VOPRF evaluation of an arbitrary input under an issuer key, by the dependency itself
func c10PRF(ty int, keyseed, input []byte) []byte {
	suite := map[int]oprf.Suite{1: oprf.SuiteP384, 5: oprf.SuiteRistretto255}[ty]
	out, err := oprf.NewVerifiableServer(suite, oprfKey(suite, keyseed)).FullEvaluate(input)
	must(err)
	return out
}

func c02Direct(c *Ctx, w *c03World, ty int, kind string, resp []byte, out string, mustReject bool, ti []byte) {
	in := map[string]any{"type": ty, "kind": kind, "response": hx(resp), "impl": out}
	if !c.DirectOK(out != "panic", "finalize panicked", in) {
		return
	}
	if kind == "honest" {
		c.Direct(strings.HasPrefix(out, "ok "), "honest response rejected", in)
	}
	if strings.HasPrefix(out, "ok ") {
		m := unhx(out[3:])
		good := len(m) > 98 && bytes.Equal(m[:98], ti)
		if good {
			tok := tokens.Token{TokenType: uint16(ty), Nonce: m[2:34], Context: m[34:66], KeyID: m[66:98], Authenticator: m[98:]}
			if ty == 1 {
				good = w.i1.Verify(tok) == nil
			} else {
				good = pssValid(w.i2.TokenKey(), tok.AuthenticatorInput(), tok.Authenticator)
			}
		}
		c.Direct(good, "finalize returned a token that does not verify under the pinned key or is not bound to its own request", in)
		if mustReject && !bytes.Equal(resp, w.resp[fmt.Sprintf("resp%d", ty)]) {
			// a changed response that still yields a *valid, correctly bound* token is not a violation of C02
			// (the property is about what the client outputs); count it
			c.Count(fmt.Sprintf("t%d:changed-response-accepted-with-valid-token", ty))
		}
	}
}

// newC03World2: responses computed under other keys / for other requests of the same client
func newC03World2(c *Ctx, r *Rng) *c03World {
	w := &c03World{resp: map[string][]byte{}}
	reseedRand(c.Seed, "c02-world2")
	w1 := c.notes["c02world"].(*c03World)
	// other issuer keys, same requests
	o1 := type1.NewBasicPrivateIssuer(oprfKey(oprf.SuiteP384, []byte("c02-other-1")))
	w.resp["resp1-otherkey"], _ = o1.Evaluate(w1.st1.Request())
	o2 := type2.NewBasicPublicIssuer(rsaKey(3))
	w.resp["resp2-otherkey"], _ = o2.Evaluate(w1.st2.Request())
	o5 := type5.NewBatchedPrivateIssuer(oprfKey(oprf.SuiteRistretto255, []byte("c02-other-5")))
	w.resp["resp5-otherkey"], _ = o5.Evaluate(w1.st5.Request())
	// same keys, other requests of the same client
	ch, nonce := []byte("another challenge"), bytes.Repeat([]byte{4}, 32)
	s1, _ := type1.NewBasicPrivateClient().CreateTokenRequest(ch, nonce, w1.i1.TokenKeyID(), w1.i1.TokenKey())
	w.resp["resp1-otherreq"], _ = w1.i1.Evaluate(s1.Request())
	s2, _ := type2.NewBasicPublicClient().CreateTokenRequest(ch, nonce, w1.i2.TokenKeyID(), w1.i2.TokenKey())
	w.resp["resp2-otherreq"], _ = w1.i2.Evaluate(s2.Request())
	s3, err := type3.NewRateLimitedClientFromSecret(w1.cl3.secret).CreateTokenRequest(ch, nonce, w1.cl3.blind, w1.env.issuer.TokenKeyID(), w1.env.issuer.TokenKey(), "origin.example", w1.env.issuer.NameKey())
	must(err)
	w.resp["resp3-otherreq"], _, _ = w1.env.issuer.Evaluate(s3.Request().Marshal())
	return w
}
