package main

import (
	"bytes"
	"fmt"
	"strings"

	"github.com/cloudflare/pat-go/tokens/type3"
)

var c20envs = map[string]*t3Env{}
var c20client = type3.NewRateLimitedClientFromSecret(bytes.Repeat([]byte{0x11}, 48))

func init() {
	props["C20"] = runC20
	replayers["c20.pad"] = func(c *Ctx, a []string) string {
		return "ok " + hxv(type3.VerifPadOriginName(string(unhx(a[0]))))
	}
	replayers["c20.unpad"] = func(c *Ctx, a []string) string {
		return "ok " + hxv([]byte(type3.VerifUnpadOriginName(unhx(a[0]))))
	}
	// c20.e2e <name> <registered names, comma separated>: a real client builds a request for
	// <name>; a real issuer with the registered origins evaluates it.
	replayers["c20.e2e"] = func(c *Ctx, a []string) string {
		name := string(unhx(a[0]))
		var regs []string
		for _, x := range unhxList(a[1]) {
			regs = append(regs, string(x))
		}
		reseedRand(c.Seed, "c20.e2e:"+a[0])
		env, ok := c20envs[a[1]]
		if !ok {
			env = newT3Env(0, regs...)
			c20envs[a[1]] = env
		}
		cl := c20client
		st, err := cl.CreateTokenRequest([]byte("challenge"), bytes.Repeat([]byte{7}, 32), bytes.Repeat([]byte{0x22}, 48),
			env.issuer.TokenKeyID(), env.issuer.TokenKey(), name, env.issuer.NameKey())
		if err != nil {
			return "err"
		}
		enc := st.Request().Marshal()
		resp, _, err := env.issuer.Evaluate(enc)
		served := 0
		if err == nil && resp != nil {
			served = 1
			if _, err := st.FinalizeToken(resp); err != nil {
				served = 2 // served but the client could not finalize
			}
		}
		return fmt.Sprintf("ok size=%d served=%d", len(enc), served)
	}
}

// c20ClientHistory: one client object asks for several origins in a row, long names before short ones; every request
// is for a registered origin, must be served, and has the size its own block count determines.
func c20ClientHistory(c *Ctx, r *Rng) {
	names := []string{"news.example.org/a/rather/long/path/that/needs/two/blocks", "news.example.org", "news.example", "n", "", "news.example.org/a/rather/long/path/that/needs/two/blocks", "x.example"}
	out := c.Op("c03.probe c20.client-history", func() string {
		env := newT3Env(1, names...)
		cl := type3.NewRateLimitedClientFromSecret(r.Bytes(48))
		for i, n := range names {
			st, err := cl.CreateTokenRequest([]byte("challenge"), r.Bytes(32), r.Bytes(48), env.issuer.TokenKeyID(), env.issuer.TokenKey(), n, env.issuer.NameKey())
			if err != nil {
				return fmt.Sprintf("request %d (%q): creation failed", i, n)
			}
			enc := st.Request().Marshal()
			blocks := max(1, (len(n)+31)/32)
			if len(enc) != 2+49+32+2+32+1+256+2+32*blocks+16+96 {
				return fmt.Sprintf("request %d (%q): %d bytes on the wire, not the size of %d block(s)", i, n, len(enc), blocks)
			}
			resp, _, err := env.issuer.Evaluate(enc)
			if err != nil {
				return fmt.Sprintf("request %d of one client, for the registered origin %q, was refused (%v)", i, n, err)
			}
			if _, err := st.FinalizeToken(resp); err != nil {
				return fmt.Sprintf("request %d (%q): the response does not finalize", i, n)
			}
		}
		return "-"
	})
	c.Count("e2e:client-history")
	c.Direct(out == "-", "several requests from one client object: "+out, nil)
}

func runC20(c *Ctx) {
	r := NewRng(c.Seed, "c20")
	maxLen := c.Pick(1100, 20000)
	mkName := func(n int, style int) []byte {
		b := make([]byte, n)
		switch style {
		case 0:
			for i := range b {
				b[i] = byte('a' + r.IntN(26))
			}
		case 1:
			for i := range b {
				b[i] = 0xff
			}
		case 2:
			for i := range b {
				b[i] = byte(r.Uint32())
			}
		default: // zeros in the middle
			for i := range b {
				if r.IntN(3) == 0 {
					b[i] = 0
				} else {
					b[i] = byte(1 + r.IntN(255))
				}
			}
		}
		return b
	}
	for n := 0; n <= maxLen; n++ {
		if n > 200 && !c.Thorough() && n%7 != 0 && n%32 > 1 && n%32 < 31 {
			continue
		}
		name := mkName(n, n%4)
		c.Count(fmt.Sprintf("pad:len%%32=%d", n%32))
		out := c.Run("c20.pad", hx(name))
		padded := type3.VerifPadOriginName(string(name))
		c.Run("c20.unpad", hx(padded))
		// direct oracle
		endsZero := n > 0 && name[n-1] == 0
		back := type3.VerifUnpadOriginName(padded)
		blocks := (n + 31) / 32
		if n == 0 {
			blocks = 1
		}
		c.Direct(len(padded) == 32*blocks && bytes.HasPrefix(padded, name), "padded length is not the number of 32-byte blocks the name needs",
			map[string]any{"len": n, "padded": len(padded), "impl": out})
		if !endsZero {
			c.Direct(back == string(name), "unpad(pad(name)) != name", map[string]any{"name": hx(name)})
		} else {
			c.Count("pad:name-ends-in-zero")
		}
	}
	// unpad on arbitrary strings: all zeros, zeros at both ends, empty, no zeros
	for i := 0; i < c.Pick(2000, 30000); i++ {
		n := r.IntN(100)
		b := mkName(n, 3)
		for k := r.IntN(40); k > 0 && n > 0; k-- {
			b[n-1-r.IntN(min(n, 35))] = 0
		}
		if i%17 == 0 {
			b = make([]byte, n)
		}
		c.Run("c20.unpad", hx(b))
		got := type3.VerifUnpadOriginName(b)
		want := strings.TrimRight(string(b), "\x00")
		c.Direct(got == want, "unpad does not strip exactly the trailing zero bytes", map[string]any{"b": hx(b)})
	}
	c20ClientHistory(c, r)
	// end to end: sizes by block count, registered vs similar names
	lens := []int{0, 1, 14, 31, 32, 33, 63, 64, 65, 100, 255, 256, 1000}
	if c.Thorough() {
		for n := 0; n <= 130; n++ {
			lens = append(lens, n)
		}
		lens = append(lens, 4096, 20000, 65000)
	}
	wide := []byte("abcdefghijklmnopqrstuvwxyzABCDEFGHIJKLMNOPQRSTUVWXYZ0123456789.-_/ ")
	for li, n := range lens {
		name := mkName(n, 0)
		if li%2 == 1 {
			// both cases, digits, dots, and (every fourth) a trailing dot: names are opaque strings
			for k := range name {
				name[k] = wide[r.IntN(len(wide)-1)]
			}
			if li%4 == 3 && n > 0 {
				name[n-1] = '.'
			}
		}
		regs := [][]byte{name}
		o := c.Run("c20.e2e", hx(name), hxList(regs))
		c.Count("e2e:registered")
		blocks := max(1, (n+31)/32)
		// 2 type + 49 request key + 32 name key id + 2 length + 32 enc + (1 + 256 + 2 + padded origin) + 16 tag + 96 signature
		wantSize := 2 + 49 + 32 + 2 + 32 + 1 + 256 + 2 + 32*blocks + 16 + 96
		c.Direct(o == fmt.Sprintf("ok size=%d served=1", wantSize), "a request for the registered origin was not served, or its size is not determined by the number of 32-byte blocks",
			map[string]any{"name": hx(name), "len": n, "impl": o, "expected_size": wantSize})
		// similar names: last byte changed, one byte longer, one shorter, padding-like suffix
		var sims [][]byte
		if n > 0 {
			s1 := append([]byte{}, name...)
			s1[n-1] ^= 1
			sims = append(sims, s1, name[:n-1])
		}
		sims = append(sims, append(append([]byte{}, name...), 'x'), append(append([]byte{}, name...), 0, 'x'))
		for _, s := range sims {
			if len(s) > 0 && s[len(s)-1] == 0 {
				continue
			}
			o := c.Run("c20.e2e", hx(s), hxList(regs))
			c.Count("e2e:similar-unregistered")
			c.Direct(strings.HasSuffix(o, "served=0"), "a request for a name that is not registered was served", map[string]any{"name": hx(s), "registered": hx(name), "impl": o})
		}
		o = c.Run("c20.e2e", hx(name), "[]")
		c.Direct(strings.HasSuffix(o, "served=0"), "a request was served by an issuer without registered origins", map[string]any{"name": hx(name), "impl": o})
	}
}
