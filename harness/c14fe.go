package main

// Field arithmetic of ed25519/internal/edwards25519/field through the verif hooks (C14, C15).
//
//	c14.fe  <op> <a> <b> <k> <x>   ->  ok <32-byte encoding of the result> <integer result>
//	c14.fel <op> <a> <b> <k> <x>   ->  ok <raw limbs of the result> <integer result> <encoding>
//
// a and b are elements given by their five raw 64-bit limbs (40 bytes, little endian). c14.fe is issued only inside
// the domain the operation is specified for (limbs below 2^51 + 2^38 for the arithmetic, any limbs for carrying,
// reduction, encoding, comparison and selection); the model answers with arithmetic modulo 2^255 - 19. c14.fel is
// issued for any limbs at all: only the translated code (Generated/FeLimbs.lean, second driver) answers it, limb
// for limb, wrap-around included.

import (
	"bytes"
	"encoding/binary"
	"fmt"
	"math/big"
	"strconv"
	"strings"

	"github.com/cloudflare/pat-go/ed25519"
)

func feLimbsHex(l [5]uint64) string {
	b := make([]byte, 40)
	for i, v := range l {
		binary.LittleEndian.PutUint64(b[8*i:], v)
	}
	return hx(b)
}

func feLimbsOf(s string) (l [5]uint64) {
	b := unhx(s)
	for i := range l {
		l[i] = binary.LittleEndian.Uint64(b[8*i:])
	}
	return
}

func feVal(l [5]uint64) *big.Int {
	v := new(big.Int)
	for i := 4; i >= 0; i-- {
		v.Lsh(v, 51).Add(v, new(big.Int).SetUint64(l[i]))
	}
	return v
}

func init() {
	arg := func(a []string) (string, [5]uint64, [5]uint64, uint64, []byte) {
		k, _ := strconv.ParseUint(a[3], 10, 64)
		return a[0], feLimbsOf(a[1]), feLimbsOf(a[2]), k, unhx(a[4])
	}
	replayers["c14.fe"] = func(c *Ctx, a []string) string {
		op, x, y, k, b := arg(a)
		_, n, enc := ed25519.VerifFieldOp(op, x, y, k, b)
		return fmt.Sprintf("ok %s %d", hxv(enc), n)
	}
	replayers["c14.fel"] = func(c *Ctx, a []string) string {
		op, x, y, k, b := arg(a)
		l, n, enc := ed25519.VerifFieldOp(op, x, y, k, b)
		return fmt.Sprintf("ok %s %d %s", feLimbsHex(l), n, hxv(enc))
	}
}

func init() {
	replayers["c14.pt"] = func(c *Ctx, a []string) string {
		res, ok := ed25519.VerifPointOp(a[0], unhx(a[1]), unhx(a[2]))
		if !ok {
			return "undecodable"
		}
		return "ok " + hxv(res)
	}
}

// c14Points: the point formulas (addition, subtraction, negation, doubling, comparison, re-encoding) on encodings: multiples
// of the base point, the small-order points and their non-canonical encodings, arbitrary byte strings. The model answers
// from the RFC 8032 reference, the second driver from the translated formulas (Generated/EdPoints.lean), math/big is the
// direct oracle.
func c14Points(c *Ctx, r *Rng) {
	small := []string{
		"0100000000000000000000000000000000000000000000000000000000000000", "ecffffffffffffffffffffffffffffffffffffffffffffffffffffffffffff7f",
		"0000000000000000000000000000000000000000000000000000000000000000", "0000000000000000000000000000000000000000000000000000000000000080",
		"26e8958fc2b227b045c3f489f2ef98f0d5dfac05d3c63339b13802886d53fc05", "26e8958fc2b227b045c3f489f2ef98f0d5dfac05d3c63339b13802886d53fc85",
		"c7176a703d4dd84fba3c0b760d10670f2a2053fa2c39ccc64ec7fd7792ac037a", "c7176a703d4dd84fba3c0b760d10670f2a2053fa2c39ccc64ec7fd7792ac03fa",
		"0100000000000000000000000000000000000000000000000000000000000080", "eeffffffffffffffffffffffffffffffffffffffffffffffffffffffffffff7f",
		"edffffffffffffffffffffffffffffffffffffffffffffffffffffffffffff7f", "ffffffffffffffffffffffffffffffffffffffffffffffffffffffffffffff7f",
		"ffffffffffffffffffffffffffffffffffffffffffffffffffffffffffffffff",
	}
	pick := func() []byte {
		switch r.IntN(5) {
		case 0:
			return unhx(small[r.IntN(len(small))])
		case 1:
			return r.Bytes(32)
		default:
			return []byte(ed25519.NewKeyFromSeed(r.Bytes(32))[32:])
		}
	}
	n := c.Pick(150, 4000)
	for i := 0; i < n; i++ {
		a, b := pick(), pick()
		if i%7 == 0 {
			b = a
		}
		pa, pb := edDecodeLax(a), edDecodeLax(b)
		for _, op := range []string{"add", "sub", "neg", "double", "equal", "recode"} {
			out := c.Run("c14.pt", op, hx(a), hx(b))
			c.Count("point:" + op)
			needB := op == "add" || op == "sub" || op == "equal"
			if pa == nil || (needB && pb == nil) {
				c.Direct(out == "undecodable", "an encoding that is not a point was decoded", map[string]any{"op": op, "a": hx(a), "b": hx(b), "impl": out})
				continue
			}
			var want []byte
			neg := func(p edPt) edPt { return edPt{new(big.Int).Mod(new(big.Int).Neg(p.x), feP), p.y} }
			switch op {
			case "add":
				want = edEncode(edAdd(*pa, *pb))
			case "sub":
				want = edEncode(edAdd(*pa, neg(*pb)))
			case "neg":
				want = edEncode(neg(*pa))
			case "double":
				want = edEncode(edAdd(*pa, *pa))
			case "recode":
				want = edEncode(*pa)
			case "equal":
				want = []byte{0}
				if pa.x.Cmp(pb.x) == 0 && pa.y.Cmp(pb.y) == 0 {
					want = []byte{1}
				}
			}
			c.Direct(out == "ok "+hxv(want), "point operation differs from the math/big Edwards reference", map[string]any{"op": op, "a": hx(a), "b": hx(b), "impl": out, "want": hx(want)})
		}
	}
}

func init() {
	replayers["c14.sm"] = func(c *Ctx, a []string) string {
		res, ok := ed25519.VerifScalarMult(a[0], unhx(a[1]), unhx(a[2]), unhx(a[3]))
		if !ok {
			return "undecodable"
		}
		return "ok " + hxv(res)
	}
}

// c14ScalarMult: the table-driven scalar multiplications (fixed base, variable base, double-scalar) and the clamped one, on
// scalars built from digit patterns — 32-bit words and nibbles at the edges of the signed radix-16 and non-adjacent-form
// recodings (…7777, …8888, …ffff, alternating, single bits), adjacent words that pass a carry — and on small-order,
// non-canonical and ordinary points. The model answers from the RFC 8032 reference, math/big is the direct oracle (round 7:
// a recoding carry lost only next to a 0x77777777 word; a fast path that mistakes the point of order two for the identity).
func c14ScalarMult(c *Ctx, r *Rng) {
	L, _ := new(big.Int).SetString("7237005577332262213973186563042994240857116359379907606001950938285454250989", 10)
	words := []uint32{0x77777777, 0x88888888, 0x77777778, 0x87777777, 0x78888888, 0xffffffff, 0, 0x80000000, 0x7fffffff, 0x0f0f0f0f, 0xf0f0f0f0,
		0x11111111, 0x0000001f, 0xfffffff0, 0x55555555, 0xaaaaaaaa, 1}
	nibs := []byte{0, 7, 8, 15, 1, 9}
	scalar := func() []byte {
		b := make([]byte, 32)
		switch r.IntN(4) {
		case 0:
			copy(b, r.Bytes(32))
		case 1:
			for i := 0; i < 32; i++ {
				b[i] = nibs[r.IntN(len(nibs))] | nibs[r.IntN(len(nibs))]<<4
			}
		default:
			for i := 0; i < 8; i++ {
				w := words[r.IntN(len(words))]
				if r.IntN(5) == 0 {
					w = r.Uint32()
				}
				binary.LittleEndian.PutUint32(b[4*i:], w)
			}
		}
		if r.IntN(4) != 0 {
			b[31] &= 0x0f // below 2^252: the reduction modulo L leaves the pattern alone
		}
		return b
	}
	small := []string{
		"0100000000000000000000000000000000000000000000000000000000000000", "ecffffffffffffffffffffffffffffffffffffffffffffffffffffffffffff7f",
		"0000000000000000000000000000000000000000000000000000000000000000", "0000000000000000000000000000000000000000000000000000000000000080",
		"26e8958fc2b227b045c3f489f2ef98f0d5dfac05d3c63339b13802886d53fc05", "c7176a703d4dd84fba3c0b760d10670f2a2053fa2c39ccc64ec7fd7792ac03fa",
		"ecffffffffffffffffffffffffffffffffffffffffffffffffffffffffffffff", "eeffffffffffffffffffffffffffffffffffffffffffffffffffffffffffff7f",
	}
	point := func() []byte {
		switch r.IntN(4) {
		case 0:
			return unhx(small[r.IntN(len(small))])
		default:
			return []byte(ed25519.NewKeyFromSeed(r.Bytes(32))[32:])
		}
	}
	le := func(b []byte) *big.Int {
		x := new(big.Int)
		for i := len(b) - 1; i >= 0; i-- {
			x.Lsh(x, 8).Or(x, big.NewInt(int64(b[i])))
		}
		return x
	}
	base := edDecodeLax(unhx("5866666666666666666666666666666666666666666666666666666666666666"))
	n := c.Pick(150, 4000)
	edge := recodeEdgeScalars([]int{4, 8, 16})
	if c.Thorough() {
		edge = recodeEdgeScalars([]int{1, 2, 4, 8, 16})
	}
	for i := 0; i < n+len(edge); i++ {
		a, b, A := scalar(), scalar(), point()
		if i >= n {
			a, b = edge[i-n], edge[(i-n+1)%len(edge)]
		}
		pa := edDecodeLax(A)
		ka, kb := new(big.Int).Mod(le(a), L), new(big.Int).Mod(le(b), L)
		for _, op := range []string{"base", "var", "double", "clamp"} {
			out := c.Run("c14.sm", op, hx(a), hx(A), hx(b))
			c.Count("scalarmult:" + op)
			var want []byte
			switch op {
			case "base":
				want = edEncode(edMul(ka, *base))
			case "clamp":
				k := le(a)
				k.SetBit(k, 0, 0).SetBit(k, 1, 0).SetBit(k, 2, 0).SetBit(k, 255, 0).SetBit(k, 254, 1)
				want = edEncode(edMul(new(big.Int).Mod(k, L), *base))
			case "var":
				if pa == nil {
					c.Direct(out == "undecodable", "an encoding that is not a point was decoded", map[string]any{"A": hx(A)})
					continue
				}
				want = edEncode(edMul(ka, *pa))
			case "double":
				if pa == nil {
					continue
				}
				want = edEncode(edAdd(edMul(ka, *pa), edMul(kb, *base)))
			}
			c.Direct(out == "ok "+hxv(want), "scalar multiplication differs from the math/big Edwards reference",
				map[string]any{"op": op, "a": hx(a), "A": hx(A), "b": hx(b), "impl": out, "want": hx(want)})
		}
	}
}

// recodeEdgeScalars: a block of 0x77 bytes (1, 2, 4, 8 or 16 of them, aligned) directly above a block that sends a carry up
// (0x80 in its top byte, all 0x88, all 0xff), everything else zero — where a recoding that works on machine words rather than
// digits would drop or double a carry (round 8: carry-out taken before the carry-in was added, one 64-bit word in 2^64).
func recodeEdgeScalars(units []int) [][]byte {
	var out [][]byte
	for _, u := range units {
		for k := u; k+u <= 31; k += u {
			for pat := 0; pat < 3; pat++ {
				b := make([]byte, 32)
				for i := k; i < k+u; i++ {
					b[i] = 0x77
				}
				for i := k - u; i < k; i++ {
					switch pat {
					case 0:
						if i == k-1 {
							b[i] = 0x80
						}
					case 1:
						b[i] = 0x88
					case 2:
						b[i] = 0xff
					}
				}
				out = append(out, b)
			}
		}
	}
	return out
}

func init() {
	replayers["c14.dg"] = func(c *Ctx, a []string) string {
		return "ok " + hxv(ed25519.VerifScalarDigits(a[0], unhx(a[1])))
	}
}

// c14Digits: the two digit recodings below the scalar multiplications — signed radix 16 (`ScalarBaseMult`, `ScalarMult`) and the
// width-5 / width-8 non-adjacent forms (`VarTimeDoubleScalarBaseMult`) — on the digit patterns of c14ScalarMult plus scalars next
// to L, powers of two and their neighbours. The main driver answers from the specification (digit expansions computed from the
// number), scdriver from the literal model of the Go loops (Model/Recode.lean, about which Proofs/Recode.lean is); the direct
// oracle re-evaluates the digits with math/big and checks the digit sets: value = scalar mod L, radix-16 digits in [-8, 8) with
// the top one in [0, 8], NAF digits zero or odd with |d| < 2^(w-1) and no two non-zero digits within w positions.
func c14Digits(c *Ctx, r *Rng) {
	L, _ := new(big.Int).SetString("7237005577332262213973186563042994240857116359379907606001950938285454250989", 10)
	words := []uint32{0x77777777, 0x88888888, 0x77777778, 0x87777777, 0x78888888, 0xffffffff, 0, 0x80000000, 0x7fffffff, 0x0f0f0f0f, 0xf0f0f0f0,
		0x11111111, 0x0000001f, 0xfffffff0, 0x55555555, 0xaaaaaaaa, 1, 0x0000000f, 0x00000010, 0xfffffff1, 0x7f7f7f7f, 0x80808080, 0xf8f8f8f8}
	le32 := func(x *big.Int) []byte {
		b := new(big.Int).Mod(x, new(big.Int).Lsh(big.NewInt(1), 256)).FillBytes(make([]byte, 32))
		for i, j := 0, 31; i < j; i, j = i+1, j-1 {
			b[i], b[j] = b[j], b[i]
		}
		return b
	}
	var fixed [][]byte
	for _, k := range []int{0, 1, 3, 4, 5, 7, 8, 63, 64, 65, 127, 128, 200, 248, 249, 250, 251, 252} {
		p := new(big.Int).Lsh(big.NewInt(1), uint(k))
		for _, d := range []int64{-1, 0, 1} {
			v := new(big.Int).Add(p, big.NewInt(d))
			if v.Sign() >= 0 {
				fixed = append(fixed, le32(v))
			}
		}
	}
	for d := int64(-3); d <= 3; d++ {
		fixed = append(fixed, le32(new(big.Int).Add(L, big.NewInt(d))))
	}
	fixed = append(fixed, recodeEdgeScalars([]int{1, 2, 4, 8, 16})...)
	fixed = append(fixed, bytes.Repeat([]byte{0xff}, 32), bytes.Repeat([]byte{0x88}, 32), bytes.Repeat([]byte{0x77}, 32), bytes.Repeat([]byte{0x0f}, 32),
		bytes.Repeat([]byte{0xf0}, 32), bytes.Repeat([]byte{0x1f}, 32), bytes.Repeat([]byte{0x80}, 32), bytes.Repeat([]byte{0x7f}, 32))
	n := c.Pick(400, 20000)
	for i := 0; i < n+len(fixed); i++ {
		var x []byte
		switch {
		case i < len(fixed):
			x = fixed[i]
		case i%3 == 0:
			x = r.Bytes(32)
		default:
			x = make([]byte, 32)
			for j := 0; j < 8; j++ {
				w := words[r.IntN(len(words))]
				if r.IntN(6) == 0 {
					w = r.Uint32()
				}
				binary.LittleEndian.PutUint32(x[4*j:], w)
			}
		}
		if i >= len(fixed) && r.IntN(4) != 0 {
			x[31] &= 0x0f
		}
		k := new(big.Int).Mod(leInt(x), L)
		for _, kind := range []string{"radix16", "naf5", "naf8"} {
			out := c.Run("c14.dg", kind, hx(x))
			c.Count("digits:" + kind)
			ds := unhx(strings.TrimPrefix(out, "ok "))
			radix, w, want := uint(4), 0, 64
			if kind != "radix16" {
				radix, want = 1, 256
				w = 5
				if kind == "naf8" {
					w = 8
				}
			}
			okShape := len(ds) == want
			sum := new(big.Int)
			last := -1000
			for j := len(ds) - 1; j >= 0; j-- {
				d := int64(int8(ds[j]))
				sum.Lsh(sum, radix).Add(sum, big.NewInt(d))
			}
			for j := 0; j < len(ds); j++ {
				d := int(int8(ds[j]))
				if kind == "radix16" {
					if j < 63 && (d < -8 || d > 7) || j == 63 && (d < 0 || d > 8) {
						okShape = false
					}
				} else if d != 0 {
					if d%2 == 0 || d >= 1<<(w-1) || d <= -(1<<(w-1)) || j-last < w {
						okShape = false
					}
					last = j
				}
			}
			c.Direct(okShape && sum.Cmp(k) == 0, "digit recoding does not represent the scalar, or a digit is outside its set",
				map[string]any{"kind": kind, "x": hx(x), "impl": out, "value": sum.String(), "want": k.String()})
		}
	}
}

// edDecodeLax decodes as (*Point).SetBytes does: y is taken modulo p (values in [p, 2^255) are accepted), and x = 0 with the sign
// bit set is accepted.
func edDecodeLax(enc []byte) *edPt {
	if len(enc) != 32 {
		return nil
	}
	y := leInt(enc)
	sign := y.Bit(255)
	y.SetBit(y, 255, 0)
	y.Mod(y, edP)
	yy := new(big.Int).Mod(new(big.Int).Mul(y, y), edP)
	u := new(big.Int).Mod(new(big.Int).Sub(yy, big.NewInt(1)), edP)
	v := new(big.Int).Mod(new(big.Int).Add(new(big.Int).Mul(edD, yy), big.NewInt(1)), edP)
	x2 := new(big.Int).Mod(new(big.Int).Mul(u, new(big.Int).ModInverse(v, edP)), edP)
	x := new(big.Int).ModSqrt(x2, edP)
	if x == nil {
		return nil
	}
	if x.Bit(0) != sign {
		x.Sub(edP, x).Mod(x, edP)
	}
	return &edPt{x, y}
}

var feP = new(big.Int).Sub(new(big.Int).Lsh(big.NewInt(1), 255), big.NewInt(19))

func c14Field(c *Ctx, r *Rng) {
	le32 := func(x *big.Int) []byte {
		b := x.FillBytes(make([]byte, 32))
		for i, j := 0, 31; i < j; i, j = i+1, j-1 {
			b[i], b[j] = b[j], b[i]
		}
		return b
	}
	const m51 = uint64(1)<<51 - 1
	loose := uint64(1)<<51 + uint64(1)<<38 - 1
	edgeLoose := []uint64{0, 1, 2, 18, 19, 20, m51 - 19, m51 - 18, m51 - 1, m51, m51 + 1, m51 + 155647, m51 + 1<<18, loose - 1, loose, 1 << 50, 1<<50 - 1}
	edgeWord := append([]uint64{^uint64(0), 1 << 63, 1<<63 - 1, 1 << 52, 1<<52 - 1, 0xFFFFFFFFFFFDA, 0xFFFFFFFFFFFFE, 1<<64 - 19, 1 << 62}, edgeLoose...)
	limb := func(word bool) uint64 {
		switch r.IntN(4) {
		case 0:
			if word {
				return edgeWord[r.IntN(len(edgeWord))]
			}
			return edgeLoose[r.IntN(len(edgeLoose))]
		case 1:
			return r.Uint64() & m51
		default:
			if word {
				if r.IntN(2) == 0 {
					return r.Uint64()
				}
				return r.Uint64() >> uint(r.IntN(14))
			}
			return r.Uint64() % (loose + 1)
		}
	}
	elem := func(word bool) (l [5]uint64) {
		switch r.IntN(8) {
		case 0: // p and its neighbours (2p for the operations that take any limbs)
			l = [5]uint64{m51 - 18, m51, m51, m51, m51}
			if word && r.Bool() {
				l = [5]uint64{0xFFFFFFFFFFFDA, 0xFFFFFFFFFFFFE, 0xFFFFFFFFFFFFE, 0xFFFFFFFFFFFFE, 0xFFFFFFFFFFFFE}
			}
			l[0] = uint64(int64(l[0]) + int64(r.IntN(41)) - 20)
		case 1:
			v := edgeLoose[r.IntN(len(edgeLoose))]
			l = [5]uint64{v, v, v, v, v}
		default:
			for i := range l {
				l[i] = limb(word)
			}
		}
		return
	}
	mod := func(x *big.Int) *big.Int { return new(big.Int).Mod(x, feP) }
	n := c.Pick(300, 6000)
	zero := feLimbsHex([5]uint64{})
	run := func(op string, a, b [5]uint64, k uint64, x []byte, spec bool, want *big.Int, wantN int) {
		args := []string{op, feLimbsHex(a), feLimbsHex(b), strconv.FormatUint(k, 10), hx(x)}
		c.Count("field:" + op)
		if spec {
			out := c.Run("c14.fe", args...)
			if want != nil {
				c.Direct(out == fmt.Sprintf("ok %s %d", hxv(le32(want)), wantN), "field operation differs from arithmetic modulo 2^255-19 (math/big)",
					map[string]any{"op": op, "a": args[1], "b": args[2], "k": k, "x": args[4], "impl": out, "want": hx(le32(want)), "wantN": wantN})
			}
		}
		c.Run("c14.fel", args...)
	}
	_ = zero
	for i := 0; i < n; i++ {
		a, b := elem(false), elem(false)
		A, B := feVal(a), feVal(b)
		run("mul", a, b, 0, nil, true, mod(new(big.Int).Mul(A, B)), 0)
		run("sq", a, b, 0, nil, true, mod(new(big.Int).Mul(A, A)), 0)
		run("add", a, b, 0, nil, true, mod(new(big.Int).Add(A, B)), 0)
		run("sub", a, b, 0, nil, true, mod(new(big.Int).Sub(A, B)), 0)
		run("neg", a, b, 0, nil, true, mod(new(big.Int).Neg(A)), 0)
		k := uint64(r.Uint32())
		if i%5 == 0 {
			k = []uint64{0, 1, 1<<32 - 1, 121666, 1 << 31}[r.IntN(5)]
		}
		run("mult32", a, b, k, nil, true, mod(new(big.Int).Mul(A, new(big.Int).SetUint64(k))), 0)
		abs := mod(A)
		if abs.Bit(0) == 1 {
			abs = mod(new(big.Int).Neg(A))
		}
		run("abs", a, b, 0, nil, true, abs, 0)
		if i%4 == 0 {
			run("inv", a, b, 0, nil, true, new(big.Int).Exp(A, new(big.Int).Sub(feP, big.NewInt(2)), feP), 0)
			run("pow22523", a, b, 0, nil, true, new(big.Int).Exp(A, new(big.Int).Sub(new(big.Int).Lsh(big.NewInt(1), 252), big.NewInt(3)), feP), 0)
			// square root of a ratio: whatever is reported as a square root is one, and it is the non-negative one
			args := []string{"sqrtratio", feLimbsHex(a), feLimbsHex(b), "0", ""}
			out := c.Run("c14.fel", args...)
			c.Count("field:sqrtratio")
			var lh, eh string
			var was int
			if _, err := fmt.Sscanf(out, "ok %s %d %s", &lh, &was, &eh); err == nil {
				rr := new(big.Int)
				eb := unhx(eh)
				for j := len(eb) - 1; j >= 0; j-- {
					rr.Lsh(rr, 8).Or(rr, big.NewInt(int64(eb[j])))
				}
				lhs := mod(new(big.Int).Mul(B, new(big.Int).Mul(rr, rr)))
				isSq := false
				if mod(B).Sign() != 0 {
					q := mod(new(big.Int).Mul(A, new(big.Int).ModInverse(mod(B), feP)))
					isSq = q.Sign() == 0 || big.Jacobi(q, feP) == 1
				} else {
					isSq = mod(A).Sign() == 0
				}
				ok := rr.Bit(0) == 0 && rr.Cmp(feP) < 0 && (was == 1) == isSq && (was == 0 || lhs.Cmp(mod(A)) == 0)
				c.Direct(ok, "SqrtRatio: wrong verdict, or the reported root is not the non-negative square root of u/v",
					map[string]any{"u": args[1], "v": args[2], "impl": out, "isSquare": isSq})
			}
		}
		// operations specified for any limbs
		wa, wb := elem(true), elem(true)
		WA, WB := feVal(wa), feVal(wb)
		run("carry", wa, wb, 0, nil, true, mod(WA), 0)
		run("reduce", wa, wb, 0, nil, true, mod(WA), 0)
		run("bytes", wa, wb, 0, nil, true, mod(WA), 0)
		eq := 0
		if mod(WA).Cmp(mod(WB)) == 0 {
			eq = 1
		}
		run("equal", wa, wb, 0, nil, true, mod(WA), eq)
		run("equal", wa, wa, 0, nil, true, mod(WA), 1)
		// an equal residue in another representation: wa + p limb-wise (when it fits)
		if wa[0] < 1<<63 && wa[1] < 1<<63 && wa[2] < 1<<63 && wa[3] < 1<<63 && wa[4] < 1<<63 {
			wp := [5]uint64{wa[0] + m51 - 18, wa[1] + m51, wa[2] + m51, wa[3] + m51, wa[4] + m51}
			run("equal", wa, wp, 0, nil, true, mod(WA), 1)
		}
		run("isneg", wa, wb, 0, nil, true, mod(WA), int(mod(WA).Bit(0)))
		run("select", wa, wb, 1, nil, true, mod(WA), 0)
		run("select", wa, wb, 0, nil, true, mod(WB), 0)
		run("swap", wa, wb, uint64(i%2), nil, false, nil, 0)
		// any limbs at all through the arithmetic: only the translated code answers (wrap-around included)
		for _, op := range []string{"mul", "sq", "add", "sub", "neg", "mult32", "abs"} {
			run(op, wa, wb, k, nil, false, nil, 0)
		}
		// decoding: any 32 bytes, bit 255 ignored, values in [p, 2^255) accepted
		x := r.Bytes(32)
		switch i % 6 {
		case 0:
			x = le32(new(big.Int).Add(feP, big.NewInt(int64(r.IntN(19)))))
		case 1:
			x = le32(new(big.Int).Sub(feP, big.NewInt(int64(1+r.IntN(3)))))
			x[31] |= 0x80
		case 2:
			for j := range x {
				x[j] = 0xff
			}
		}
		X := new(big.Int)
		for j := 31; j >= 0; j-- {
			X.Lsh(X, 8).Or(X, big.NewInt(int64(x[j])))
		}
		X.SetBit(X, 255, 0)
		run("setbytes", a, b, 0, x, true, mod(X), 0)
	}
}
