package main

import (
	"bytes"
	"crypto/elliptic"
	"crypto/sha256"
	"fmt"
	"math/big"
	"sort"
	"strings"

	hpke "github.com/cisco/go-hpke"

	"github.com/cloudflare/circl/blindsign/blindrsa"
	"github.com/cloudflare/pat-go/ecdsa"
	"github.com/cloudflare/pat-go/tokens/type3"
)

// c07Env: deterministic type-3 deployments, rebuilt from (seed, index) on replay.
type c07Env struct {
	*t3Env
	origins   []string
	aadPrefix []byte
	configID  []byte
}

var c07Envs = map[string]*c07Env{}

func getC07Env(seed uint64, idx int, origins []string) *c07Env {
	key := fmt.Sprintf("%d/%d/%s", seed, idx, strings.Join(origins, "\x00"))
	if e, ok := c07Envs[key]; ok {
		return e
	}
	reseedRand(seed, fmt.Sprintf("t3env-%d", idx))
	env := newT3Env(idx, origins...)
	nk := env.issuer.NameKey().Marshal() // id(1) kem(2) pk(32) kdf(2) aead(2)
	cfg := sha256.Sum256(nk)
	e := &c07Env{t3Env: env, origins: origins, aadPrefix: []byte{nk[0], nk[1], nk[2], nk[35], nk[36], nk[37], nk[38]}, configID: cfg[:]}
	c07Envs[key] = e
	return e
}

// oracle columns for one request: what HPKE-open and blind-sign say, computed outside Evaluate
func (e *c07Env) oracleCols(req []byte) []string {
	var originCols []string
	for _, o := range e.origins {
		k := e.issuer.OriginIndexKey(o)
		originCols = append(originCols, hxv([]byte(o))+":"+hxv(k.D.Bytes()))
	}
	oc := "[]"
	if len(originCols) > 0 {
		oc = strings.Join(originCols, ",")
	}
	cols := []string{hxv(e.aadPrefix), hxv(e.configID), oc}
	none := []string{"none", "-", "-", "none", "err"}
	// independent parse of the outer structure
	if len(req) < 2+49+32+2 {
		return append(cols, none...)
	}
	rk := req[2:51]
	l := int(req[83])<<8 | int(req[84])
	if len(req) < 85+l || l < 32 {
		return append(cols, none...)
	}
	enc, ct := req[85:85+32], req[85+32:85+l]
	aad := append(append(append(append([]byte{}, e.aadPrefix...), 0, 3), rk...), e.configID...)
	pt, secret, err := e.issuer.VerifNameKey().VerifHPKEOpen(enc, aad, ct)
	if err != nil {
		return append(cols, none...)
	}
	cols = append(cols, hxv(aad), hxv(pt), hxv(secret))
	if len(pt) < 257 {
		// inner request does not parse: Evaluate goes on with an empty inner request
		sig, err := blindrsa.NewSigner(e.key).BlindSign(nil)
		if err != nil {
			return append(cols, "-", "err")
		}
		return append(cols, "-", hxv(sig))
	}
	bm := pt[1:257]
	if len(pt) < 259 || len(pt) < 259+(int(pt[257])<<8|int(pt[258])) {
		bm = nil
	}
	sig, err := blindrsa.NewSigner(e.key).BlindSign(bm)
	if err != nil {
		return append(cols, hxv(bm), "err")
	}
	return append(cols, hxv(bm), hxv(sig))
}

func init() {
	props["C07"] = runC07
	// c07.eval <request> <aadPrefix> <configId> <origins name:key,...> <aad|none> <pt> <secret> <bmsg|none> <bsig|err>
	// (columns 2.. are for the model; the implementation needs the environment: c07.env selects it)
	replayers["c07.env"] = func(c *Ctx, a []string) string {
		var os []string
		for _, o := range unhxList(a[1]) {
			os = append(os, string(o))
		}
		var idx int
		fmt.Sscanf(a[0], "%d", &idx)
		c.notes["c07env"] = getC07Env(c.Seed, idx, os)
		return "ok"
	}
	replayers["c07.eval"] = func(c *Ctx, a []string) string {
		e := c.notes["c07env"].(*c07Env)
		reseedRand(c.Seed, "c07.eval")
		resp, brk, err := e.issuer.Evaluate(unhx(a[0]))
		if err != nil {
			if resp != nil || brk != nil {
				return "err-with-output"
			}
			return "err"
		}
		return fmt.Sprintf("ok %d %s", len(resp), hxv(brk))
	}
}

func runC07(c *Ctx) {
	r := NewRng(c.Seed, "c07")
	defer delete(c.notes, "c07env")
	nEnv := c.Pick(2, 6)
	for ei := 0; ei < nEnv; ei++ {
		names := []string{"example.com", "origin-" + string(rune('a'+ei)) + ".example/with/a/longer/path", strings.Repeat("x", 65+ei), "o"}
		var nb [][]byte
		for _, n := range names {
			nb = append(nb, []byte(n))
		}
		c.Run("c07.env", fmt.Sprint(ei), hxList(nb))
		e := c.notes["c07env"].(*c07Env)
		otherEnv := getC07Env(c.Seed, 100+ei, names)
		eval := func(kind string, req []byte, honest *type3.RateLimitedTokenRequestState, base []byte) string {
			args := append([]string{hx(req)}, e.oracleCols(req)...)
			out := c.Run("c07.eval", args...)
			c.Count(kind)
			in := map[string]any{"kind": kind, "env": ei, "request": hx(req), "impl": out}
			if out == "panic" {
				c.Direct(false, "Evaluate panicked", in)
				return out
			}
			c.Direct(out != "err-with-output", "error together with a response", in)
			ok := strings.HasPrefix(out, "ok")
			if honest != nil {
				c.Direct(ok, "honest request refused", in)
			} else if base != nil && ok {
				// a changed request was served: only the (r, N-s) signature twin may be
				c.Direct(bytes.Equal(req, sigTwin(base)), "a tampered request was served", in)
			} else if base == nil {
				c.Direct(!ok, "a request that must be refused ("+kind+") was served", in)
			}
			return out
		}
		mkReq := func(cl *t3Client, origin string, env *c07Env) (type3.RateLimitedTokenRequestState, []byte) {
			reseedRand(c.Seed, fmt.Sprintf("c07-req-%d", r.Uint32()))
			client := type3.NewRateLimitedClientFromSecret(cl.secret)
			st, err := client.CreateTokenRequest(r.Bytes(r.IntN(30)), r.Bytes(32), cl.blind, env.issuer.TokenKeyID(), env.issuer.TokenKey(), origin, env.issuer.NameKey())
			must(err)
			return st, st.Request().Marshal()
		}
		for k := 0; k < c.Pick(4, 8); k++ {
			cl := newT3Client(r)
			st, req := mkReq(cl, names[k%len(names)], e)
			out := eval("honest", req, &st, nil)
			if strings.HasPrefix(out, "ok") {
				// the response must be usable by the client
				reseedRand(c.Seed, "c07.eval")
				resp, _, _ := e.issuer.Evaluate(req)
				_, err := st.FinalizeToken(resp)
				c.Direct(err == nil, "client cannot finalize the response to its honest request", map[string]any{"request": hx(req)})
			}
			// every bit (sampled in quick)
			stride := c.Pick(29, 1)
			for bit := r.IntN(stride); bit < len(req)*8; bit += stride {
				m := append([]byte{}, req...)
				m[bit/8] ^= 1 << (bit % 8)
				field := "flip:signature"
				switch p := bit / 8; {
				case p < 2:
					field = "flip:type"
				case p < 51:
					field = "flip:requestKey"
				case p < 83:
					field = "flip:nameKeyId"
				case p < 85:
					field = "flip:length"
				case p < 117:
					field = "flip:enc"
				case p < len(req)-96:
					field = "flip:ciphertext"
				}
				eval(field, m, nil, req)
			}
			// truncations, extensions
			for _, n := range []int{0, 1, 2, 50, 84, 85, 117, len(req) - 97, len(req) - 96, len(req) - 1} {
				eval("truncated", req[:n], nil, nil)
			}
			eval("extended", append(append([]byte{}, req...), 0), nil, nil)
			if k == 0 {
				// trailing data whose length is a multiple of 2^16 (a length computed in 16-bit arithmetic does not see it)
				for _, extra := range []int{255, 256, 65535, 65536, 65537, 131072} {
					eval("extended-2^16", append(append([]byte{}, req...), make([]byte, extra)...), nil, nil)
				}
			}
			// bytes inserted at every field boundary (in particular between ciphertext and signature) and removed there
			for _, at := range []int{2, 51, 83, 85, 117, len(req) - 96, len(req) - 48} {
				for _, junk := range [][]byte{{0}, r.Bytes(1 + r.IntN(8)), r.Bytes(96)} {
					m := append(append(append([]byte{}, req[:at]...), junk...), req[at:]...)
					eval("inserted", m, nil, nil)
				}
				eval("removed", append(append([]byte{}, req[:at-1]...), req[at:]...), nil, nil)
			}
			// the (r, N-s) twin is a valid signature over the same request: served, and that is fine
			eval("sig:twin", sigTwin(req), nil, req)
			// unregistered origins and near misses
			for _, o := range []string{"unregistered.example", names[0] + "x", names[0][:len(names[0])-1], "", strings.ToUpper(names[0]), names[0] + "\x00x", names[0] + ".", names[0] + " ", " " + names[0], names[0] + "/", "www." + names[0]} {
				_, rq := mkReq(cl, o, e)
				eval("origin:unregistered", rq, nil, nil)
			}
			// sealed to another issuer's name key (same origins registered there)
			_, rq := mkReq(cl, names[0], otherEnv)
			eval("namekey:other-issuer", rq, nil, nil)
			// signed by a different key: splice the signature of another client's request over the same fields
			other := newT3Client(r)
			_, rq2 := mkReq(other, names[0], e)
			sp := append(append([]byte{}, req[:len(req)-96]...), rq2[len(rq2)-96:]...)
			eval("sig:other-request", sp, nil, nil)
			// re-signed by another key over this request's exact contents
			eval("sig:other-key", resign(req, other), nil, nil)
			// request key replaced by another client's and re-signed consistently: AAD no longer matches
			eval("requestKey:other+resigned", resignWithKey(req, other), nil, nil)
		}
		// crafted inner requests: well sealed and signed, but with unusual plaintexts
		{
			cl := newT3Client(r)
			bm := r.Bytes(256)
			bm[0] = 0
			inner := func(keyID byte, blinded, padded []byte) []byte {
				out := append([]byte{keyID}, blinded...)
				out = append(out, byte(len(padded)>>8), byte(len(padded)))
				return append(out, padded...)
			}
			reg := []byte(names[0])
			pad32 := func(b []byte) []byte { return append(append([]byte{}, b...), make([]byte, 32-len(b)%32)...) }
			cases := map[string][]byte{
				"inner:honest-shape":        inner(1, bm, pad32(reg)),
				"inner:empty-origin":        inner(1, bm, nil),
				"inner:all-zero-origin":     inner(1, bm, make([]byte, 32)),
				"inner:unpadded-registered": inner(1, bm, reg),
				"inner:one-zero":            inner(1, bm, []byte{0}),
				"inner:nul-then-text":       inner(1, bm, pad32(append(append([]byte{}, reg...), append([]byte{0}, []byte("evil")...)...))),
				"inner:leading-zero":        inner(1, bm, pad32(append([]byte{0}, reg...))),
				"inner:trailing-bytes":      append(inner(1, bm, pad32(reg)), 1, 2, 3),
				"inner:truncated-257":       inner(1, bm, nil)[:257],
				"inner:truncated-100":       bm[:100],
				"inner:empty":               {},
				"inner:length-overrun":      append(append([]byte{1}, bm...), 0, 40, 1, 2),
				"inner:blinded-too-large":   inner(1, bytes.Repeat([]byte{0xff}, 256), pad32(reg)),
				"inner:long-origin":         inner(1, bm, pad32(bytes.Repeat([]byte{'a'}, 1000))),
			}
			var keys []string
			for k := range cases {
				keys = append(keys, k)
			}
			sort.Strings(keys)
			for _, k := range keys {
				req := craftRequest(e, cl, cases[k])
				args := append([]string{hx(req)}, e.oracleCols(req)...)
				out := c.Run("c07.eval", args...)
				c.Count(k)
				in := map[string]any{"kind": k, "env": ei, "request": hx(req), "impl": out}
				c.Direct(out != "panic" && out != "err-with-output", "Evaluate panicked or returned output together with an error", in)
				served := strings.HasPrefix(out, "ok")
				wantServed := k == "inner:honest-shape" || k == "inner:unpadded-registered" || k == "inner:trailing-bytes"
				c.Direct(served == wantServed, fmt.Sprintf("crafted inner request: served=%v, expected %v (only the registered origin may be served)", served, wantServed), in)
			}
		}
		// requests that reach the later stages of Evaluate in an unusual state: correctly sealed for a registered origin
		// (anyone can seal to the public name key, with any request-key bytes in the associated data) but with a
		// request key that is not a point, or with signature halves on the boundaries of the scalar range
		{
			cl := newT3Client(r)
			cr := c07Crafted(e, cl, r, names[0])
			var ks []string
			for k := range cr {
				ks = append(ks, k)
			}
			sort.Strings(ks)
			for _, k := range ks {
				eval(k, cr[k], nil, nil)
			}
		}
		// garbage
		for i := 0; i < c.Pick(20, 300); i++ {
			eval("random", r.Bytes(r.IntN(600)), nil, nil)
		}
	}
}

// craftRequest builds a correctly sealed and signed type-3 request around an arbitrary inner plaintext
// (anyone can encrypt to the issuer's public name key and sign with a request key of their own).
func craftRequest(e *c07Env, cl *t3Client, innerPlain []byte) []byte {
	nk := e.issuer.NameKey().Marshal()
	suite, err := hpke.AssembleCipherSuite(hpke.DHKEM_X25519, hpke.KDF_HKDF_SHA256, hpke.AEAD_AESGCM128)
	must(err)
	pk, err := suite.KEM.DeserializePublicKey(nk[3:35])
	must(err)
	enc, ctx, err := hpke.SetupBaseS(suite, theRand, pk, []byte("TokenRequest"))
	must(err)
	rk := elliptic.MarshalCompressed(elliptic.P384(), cl.reqKey.X, cl.reqKey.Y)
	aad := append(append(append(append([]byte{}, e.aadPrefix...), 0, 3), rk...), e.configID...)
	ct := append(append([]byte{}, enc...), ctx.Seal(aad, innerPlain)...)
	m := signedRequest(cl.sk, cl.blindKey, rk, e.configID, ct)
	return m.Marshal()
}

// craftRaw: a type-3 request with arbitrary request-key bytes and signature around a correctly sealed inner request
// (the associated data carries the same request-key bytes, so the issuer's decryption succeeds).
func craftRaw(e *c07Env, rk, innerPlain, sig []byte) []byte {
	nk := e.issuer.NameKey().Marshal()
	suite, err := hpke.AssembleCipherSuite(hpke.DHKEM_X25519, hpke.KDF_HKDF_SHA256, hpke.AEAD_AESGCM128)
	must(err)
	pk, err := suite.KEM.DeserializePublicKey(nk[3:35])
	must(err)
	enc, ctx, err := hpke.SetupBaseS(suite, theRand, pk, []byte("TokenRequest"))
	must(err)
	aad := append(append(append(append([]byte{}, e.aadPrefix...), 0, 3), rk...), e.configID...)
	ct := append(append([]byte{}, enc...), ctx.Seal(aad, innerPlain)...)
	m := type3.RateLimitedTokenRequest{RequestKey: rk, NameKeyID: e.configID, EncryptedTokenRequest: ct, Signature: sig}
	return m.Marshal()
}

// c07Crafted: requests every one of which must be refused (named by what is wrong with them)
func c07Crafted(e *c07Env, cl *t3Client, r *Rng, origin string) map[string][]byte {
	out := map[string][]byte{}
	bm := r.Bytes(256)
	bm[0] = 0
	padded := append([]byte(origin), make([]byte, 32-len(origin)%32)...)
	inner := append(append(append([]byte{1}, bm...), byte(len(padded)>>8), byte(len(padded))), padded...)
	P := elliptic.P384().Params().P
	notOnCurve := func() []byte {
		for {
			x := r.Bytes(48)
			x[0] &= 0x7f
			rk := append([]byte{2}, x...)
			if px, _ := elliptic.UnmarshalCompressed(elliptic.P384(), rk); px == nil {
				return rk
			}
		}
	}
	good := elliptic.MarshalCompressed(elliptic.P384(), cl.reqKey.X, cl.reqKey.Y)
	rks := map[string][]byte{
		"x-not-on-curve":  notOnCurve(),
		"tag-05":          append([]byte{5}, good[1:]...),
		"tag-04":          append([]byte{4}, good[1:]...),
		"tag-00":          append([]byte{0}, good[1:]...),
		"all-zero":        make([]byte, 49),
		"x-is-p":          append([]byte{2}, P.FillBytes(make([]byte, 48))...),
		"x-all-ones":      append([]byte{3}, bytes.Repeat([]byte{0xff}, 48)...),
		"48-bytes":        good[:48],
		"uncompressed-97": elliptic.Marshal(elliptic.P384(), cl.reqKey.X, cl.reqKey.Y),
	}
	for k, rk := range rks {
		if len(rk) != 49 {
			continue // the outer layout fixes 49 bytes; other lengths are covered by the truncation and insertion cases
		}
		out["requestKey:"+k+"+sealed+random-sig"] = craftRaw(e, rk, inner, r.Bytes(96))
		out["requestKey:"+k+"+sealed+zero-sig"] = craftRaw(e, rk, inner, make([]byte, 96))
	}
	// a correctly sealed and signed request, then the signature halves replaced by boundary values
	base := craftRequest(e, cl, inner)
	N := elliptic.P384().Params().N
	one := big.NewInt(1)
	vals := map[string]*big.Int{"0": big.NewInt(0), "N": N, "N+1": new(big.Int).Add(N, one), "P": P, "2^384-1": new(big.Int).Sub(new(big.Int).Lsh(one, 384), one)}
	rHalf, sHalf := base[len(base)-96:len(base)-48], base[len(base)-48:]
	for k, v := range vals {
		b := v.FillBytes(make([]byte, 48))
		out["sig:s="+k] = append(append(append([]byte{}, base[:len(base)-96]...), rHalf...), b...)
		out["sig:r="+k] = append(append(append([]byte{}, base[:len(base)-96]...), b...), sHalf...)
		out["sig:r=s="+k] = append(append(append([]byte{}, base[:len(base)-96]...), b...), b...)
	}
	return out
}

// sigTwin replaces the trailing r‖s by r‖(N-s).
func sigTwin(req []byte) []byte {
	out := append([]byte{}, req...)
	N := elliptic.P384().Params().N
	s := new(big.Int).SetBytes(req[len(req)-48:])
	new(big.Int).Sub(N, s).FillBytes(out[len(out)-48:])
	return out
}

// resign keeps every field and replaces the signature by one made with another client's blinded key.
func resign(req []byte, other *t3Client) []byte {
	l := int(req[83])<<8 | int(req[84])
	m := signedRequest(other.sk, other.blindKey, req[2:51], req[51:83], req[85:85+l])
	return append(append([]byte{}, req[:len(req)-96]...), m.Signature...)
}

// resignWithKey replaces the request key by the other client's and signs consistently.
func resignWithKey(req []byte, other *t3Client) []byte {
	l := int(req[83])<<8 | int(req[84])
	rk := elliptic.MarshalCompressed(elliptic.P384(), other.reqKey.X, other.reqKey.Y)
	m := signedRequest(other.sk, other.blindKey, rk, req[51:83], req[85:85+l])
	return m.Marshal()
}

var _ = ecdsa.Verify
