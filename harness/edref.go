package main

import (
	"crypto/sha512"
	"math/big"
)

// An independent math/big reference for the Edwards curve of Ed25519 (affine, complete addition law),
// used by the direct oracles of C15: decode, scalar multiplication, encode.

var (
	edP, _ = new(big.Int).SetString("7fffffffffffffffffffffffffffffffffffffffffffffffffffffffffffffed", 16)
	edL, _ = new(big.Int).SetString("1000000000000000000000000000000014def9dea2f79cd65812631a5cf5d3ed", 16)
	edD    = func() *big.Int {
		d := new(big.Int).ModInverse(big.NewInt(121666), edP)
		d.Mul(d, big.NewInt(-121665))
		return d.Mod(d, edP)
	}()
)

type edPt struct{ x, y *big.Int }

func edAdd(a, b edPt) edPt {
	m := func(x, y *big.Int) *big.Int { return new(big.Int).Mod(new(big.Int).Mul(x, y), edP) }
	den := m(edD, m(m(a.x, b.x), m(a.y, b.y)))
	xn := new(big.Int).Add(m(a.x, b.y), m(b.x, a.y))
	yn := new(big.Int).Add(m(a.y, b.y), m(a.x, b.x))
	xd := new(big.Int).ModInverse(new(big.Int).Mod(new(big.Int).Add(big.NewInt(1), den), edP), edP)
	yd := new(big.Int).ModInverse(new(big.Int).Mod(new(big.Int).Sub(big.NewInt(1), den), edP), edP)
	return edPt{m(xn, xd), m(yn, yd)}
}

func edMul(k *big.Int, p edPt) edPt {
	r := edPt{big.NewInt(0), big.NewInt(1)}
	for i := k.BitLen() - 1; i >= 0; i-- {
		r = edAdd(r, r)
		if k.Bit(i) == 1 {
			r = edAdd(r, p)
		}
	}
	return r
}

func leInt(b []byte) *big.Int {
	r := make([]byte, len(b))
	for i := range b {
		r[len(b)-1-i] = b[i]
	}
	return new(big.Int).SetBytes(r)
}

// edDecode follows RFC 8032 §5.1.3; nil when the bytes are not a point.
func edDecode(enc []byte) *edPt {
	if len(enc) != 32 {
		return nil
	}
	y := leInt(enc)
	sign := y.Bit(255)
	y.SetBit(y, 255, 0)
	if y.Cmp(edP) >= 0 {
		return nil
	}
	yy := new(big.Int).Mod(new(big.Int).Mul(y, y), edP)
	u := new(big.Int).Mod(new(big.Int).Sub(yy, big.NewInt(1)), edP)
	v := new(big.Int).Mod(new(big.Int).Add(new(big.Int).Mul(edD, yy), big.NewInt(1)), edP)
	x2 := new(big.Int).Mod(new(big.Int).Mul(u, new(big.Int).ModInverse(v, edP)), edP)
	x := new(big.Int).ModSqrt(x2, edP)
	if x == nil {
		return nil
	}
	if x.Sign() == 0 && sign == 1 {
		return nil
	}
	if x.Bit(0) != sign {
		x.Sub(edP, x)
	}
	return &edPt{x, y}
}

func edEncode(p edPt) []byte {
	y := new(big.Int).Set(p.y)
	y.SetBit(y, 255, p.x.Bit(0))
	be := y.FillBytes(make([]byte, 32))
	for i, j := 0, 31; i < j; i, j = i+1, j-1 {
		be[i], be[j] = be[j], be[i]
	}
	return be
}

// edRefBlind: pk · (SHA-512(blind ‖ 0x00 ‖ context)[0:32] mod L), the statement of C15.
func edRefBlind(pk, blind, ctx []byte) []byte {
	p := edDecode(pk)
	if p == nil {
		return nil
	}
	h := sha512.Sum512(append(append(append([]byte{}, blind...), 0), ctx...))
	k := new(big.Int).Mod(leInt(h[:32]), edL)
	return edEncode(edMul(k, *p))
}
