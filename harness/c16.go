package main

import (
	"bytes"
	"crypto/elliptic"
	"fmt"
	"math/big"
	"strings"

	"github.com/cloudflare/circl/oprf"
	"github.com/cloudflare/pat-go/ecdsa"
	"github.com/cloudflare/pat-go/ed25519"
	"github.com/cloudflare/pat-go/quicwire"
	"github.com/cloudflare/pat-go/tokens"
	"github.com/cloudflare/pat-go/tokens/batched"
	"github.com/cloudflare/pat-go/tokens/type1"
	"github.com/cloudflare/pat-go/tokens/type2"
	"github.com/cloudflare/pat-go/tokens/type3"
	"github.com/cloudflare/pat-go/tokens/type5"
	"github.com/cloudflare/pat-go/util"
)

// guarded places an argument inside a larger buffer: 8 sentinel bytes, the argument, `spare`
// bytes of spare capacity filled with `fill`; the slice handed to the code has len = len(arg)
// and cap = len(arg)+spare, exactly as a caller reusing a big buffer would pass it.
type guarded struct {
	buf   []byte
	snap  []byte
	slice []byte
}

func guard(arg []byte, spare int, fill byte) *guarded {
	g := &guarded{buf: make([]byte, 8+len(arg)+spare)}
	for i := range g.buf {
		g.buf[i] = fill
	}
	copy(g.buf[8:], arg)
	g.snap = append([]byte{}, g.buf...)
	g.slice = g.buf[8 : 8+len(arg) : 8+len(arg)+spare]
	if arg == nil {
		g.slice = nil
	}
	return g
}

func (g *guarded) changedAt() int {
	for i := range g.buf {
		if g.buf[i] != g.snap[i] {
			return i - 8
		}
	}
	return -1
}

type c16Op struct {
	name string
	args func(w *c03World, r *Rng) [][]byte
	run  func(w *c03World, a [][]byte) string
}

func c16Ops() []c16Op {
	edSeed := bytes.Repeat([]byte{3}, 32)
	edSk := ed25519.NewKeyFromSeed(edSeed)
	return []c16Op{
		{"ed25519.BlindPublicKeyWithContext(pk,blind,ctx)", func(w *c03World, r *Rng) [][]byte { return [][]byte{edSk[32:], r.Bytes(32), r.Bytes(9)} },
			func(w *c03World, a [][]byte) string {
				p, err := ed25519.BlindPublicKeyWithContext(a[0], a[1], a[2])
				return fmt.Sprint(hxv(p), err == nil)
			}},
		{"ed25519.UnblindPublicKeyWithContext(pk,blind,ctx)", func(w *c03World, r *Rng) [][]byte { return [][]byte{edSk[32:], r.Bytes(32), r.Bytes(9)} },
			func(w *c03World, a [][]byte) string {
				p, err := ed25519.UnblindPublicKeyWithContext(a[0], a[1], a[2])
				return fmt.Sprint(hxv(p), err == nil)
			}},
		{"ed25519.BlindKeySignWithContext(sk,msg,blind,ctx)", func(w *c03World, r *Rng) [][]byte { return [][]byte{edSk, r.Bytes(20), r.Bytes(32), r.Bytes(5)} },
			func(w *c03World, a [][]byte) string {
				return hxv(ed25519.BlindKeySignWithContext(a[0], a[1], a[2], a[3]))
			}},
		{"ed25519.BlindPublicKey/BlindKeySign(no ctx)", func(w *c03World, r *Rng) [][]byte { return [][]byte{edSk, r.Bytes(20), r.Bytes(32)} },
			func(w *c03World, a [][]byte) string {
				p, _ := ed25519.BlindPublicKey(ed25519.PublicKey(a[0][32:]), a[2])
				return hxv(p) + hxv(ed25519.BlindKeySign(a[0], a[1], a[2]))
			}},
		{"ed25519.Sign/Verify/NewKeyFromSeed", func(w *c03World, r *Rng) [][]byte { return [][]byte{edSeed, r.Bytes(33)} },
			func(w *c03World, a [][]byte) string {
				sk := ed25519.NewKeyFromSeed(a[0])
				sig := ed25519.Sign(sk, a[1])
				return hxv(sig) + fmt.Sprint(ed25519.Verify(ed25519.PublicKey(sk[32:]), a[1], sig))
			}},
		{"ecdsa.CreateKey/BlindPublicKeyWithContext/BlindKeySignWithContext", func(w *c03World, r *Rng) [][]byte {
			// every other time the blind key's bytes are not reduced modulo the group order (all ones)
			bk := r.Bytes(48)
			if r.IntN(2) == 0 {
				bk = bytes.Repeat([]byte{0xff}, 48)
			}
			return [][]byte{r.Bytes(48), bk, r.Bytes(7), r.Bytes(48)}
		},
			func(w *c03World, a [][]byte) string {
				sk, _ := ecdsa.CreateKey(elliptic.P384(), a[0])
				bk, _ := ecdsa.CreateKey(elliptic.P384(), a[1])
				d0, b0 := new(big.Int).Set(sk.D), new(big.Int).Set(bk.D)
				p, _ := ecdsa.BlindPublicKeyWithContext(elliptic.P384(), &sk.PublicKey, bk, a[2])
				u, _ := ecdsa.UnblindPublicKeyWithContext(elliptic.P384(), p, bk, a[2])
				rr, ss, _ := ecdsa.BlindKeySignWithContext(&failReader{limit: -1}, sk, bk, a[3], a[2])
				if sk.D.Cmp(d0) != 0 || bk.D.Cmp(b0) != 0 || bk.D.Cmp(new(big.Int).SetBytes(a[1])) != 0 {
					return "!!a key object handed to a blinding operation was changed by it"
				}
				return bigHex(p.X) + bigHex(u.X) + fmt.Sprint(ecdsa.Verify(p, a[3], rr, ss))
			}},
		{"ecdsa.Sign/SignASN1/Verify/VerifyASN1", func(w *c03World, r *Rng) [][]byte { return [][]byte{r.Bytes(32), r.Bytes(32)} },
			func(w *c03World, a [][]byte) string {
				sk, _ := ecdsa.CreateKey(elliptic.P256(), a[0])
				der, _ := ecdsa.SignASN1(&failReader{limit: -1}, sk, a[1])
				g := guard(der, 16, 0x77)
				ok := ecdsa.VerifyASN1(&sk.PublicKey, a[1], g.slice)
				return fmt.Sprint(ok, g.changedAt())
			}},
		{"tokens.UnmarshalTokenChallenge", func(w *c03World, r *Rng) [][]byte { return [][]byte{w.resp["challenge"]} },
			func(w *c03World, a [][]byte) string {
				c, err := tokens.UnmarshalTokenChallenge(a[0])
				return fmt.Sprint(hxv(c.Marshal()), err == nil)
			}},
		{"type1/2/3/5 token decoders", func(w *c03World, r *Rng) [][]byte {
			return [][]byte{w.resp["tok1"], w.resp["tok2"], w.resp["tok3"], w.resp["tok5"]}
		},
			func(w *c03World, a [][]byte) string {
				t1, _ := type1.UnmarshalPrivateToken(a[0])
				t2, _ := type2.UnmarshalToken(a[1])
				t3, _ := type3.UnmarshalToken(a[2])
				t5, _ := type5.UnmarshalBatchedPrivateToken(a[3])
				return hxv(t1.Marshal()) + hxv(t2.Marshal()) + hxv(t3.Marshal()) + hxv(t5.Marshal()) + hxv(t1.AuthenticatorInput())
			}},
		{"request decoders + Marshal", func(w *c03World, r *Rng) [][]byte {
			return [][]byte{w.resp["req1"], w.resp["req2"], w.resp["req3"], w.resp["req5"], w.resp["inner"], w.resp["batch"]}
		},
			func(w *c03World, a [][]byte) string {
				q1, q2, q3, q5, qi, qb := &type1.BasicPrivateTokenRequest{}, &type2.BasicPublicTokenRequest{}, &type3.RateLimitedTokenRequest{}, &type5.BatchedPrivateTokenRequest{}, &type3.InnerTokenRequest{}, &batched.BatchedTokenRequest{}
				ok := fmt.Sprint(q1.Unmarshal(a[0]), q2.Unmarshal(a[1]), q3.Unmarshal(a[2]), q5.Unmarshal(a[3]), qi.Unmarshal(a[4]), qb.Unmarshal(a[5]))
				return ok + hxv(q1.Marshal()) + hxv(q2.Marshal()) + hxv(q3.Marshal()) + hxv(q5.Marshal()) + hxv(qi.Marshal()) + hxv(qb.Marshal())
			}},
		{"batched.UnmarshalBatchedTokenResponses / util.UnmarshalTokenKey / type3.UnmarshalEncapKey", func(w *c03World, r *Rng) [][]byte {
			return [][]byte{w.resp["batchresp"], w.resp["spki"], w.resp["encap"]}
		},
			func(w *c03World, a [][]byte) string {
				rs, e1 := batched.UnmarshalBatchedTokenResponses(a[0])
				k, e2 := util.UnmarshalTokenKey(a[1])
				ek, e3 := type3.UnmarshalEncapKey(a[2])
				return hxList(rs) + fmt.Sprint(e1 == nil, e2 == nil, e3 == nil, k.E) + hxv(ek.Marshal())
			}},
		{"type1 CreateTokenRequest(+WithBlind)/Evaluate/FinalizeToken", func(w *c03World, r *Rng) [][]byte {
			b, _ := new(big.Int).SetInt64(int64(2 + r.IntN(1000))).MarshalText()
			_ = b
			return [][]byte{r.Bytes(12), r.Bytes(32), w.i1.TokenKeyID(), append(make([]byte, 47), byte(2+r.IntN(200)))}
		}, func(w *c03World, a [][]byte) string {
			st, err := type1.NewBasicPrivateClient().CreateTokenRequestWithBlind(a[0], a[1], a[2], w.i1.TokenKey(), a[3])
			if err != nil {
				return "err"
			}
			enc := st.Request().Marshal()
			resp, _ := w.i1.Evaluate(st.Request())
			g := guard(resp, 32, 0x55)
			tok, err := st.FinalizeToken(g.slice)
			return fmt.Sprint(hxv(enc), hxv(tok.Marshal()), err == nil, g.changedAt())
		}},
		{"Finalize of a truncated response with the rest of the message still behind it in the buffer", func(w *c03World, r *Rng) [][]byte {
			return [][]byte{r.Bytes(16)} // four cut points for each of the four token types
		}, func(w *c03World, a [][]byte) string {
			names := []string{"resp1", "resp2", "resp3", "resp5"}
			all := ""
			for k := 0; k < 8; k++ {
				which := k % 4
				resp := w.resp[names[which]]
				cut := (int(a[0][2*k])<<8 | int(a[0][2*k+1])) % len(resp)
				fin := func(b []byte) (out string) {
					defer func() {
						if recover() != nil {
							out = "panic"
						}
					}()
					var err error
					var m []byte
					switch which {
					case 0:
						t, e := w.st1.FinalizeToken(b)
						err, m = e, t.Marshal()
					case 1:
						t, e := w.st2.FinalizeToken(b)
						err, m = e, t.Marshal()
					case 2:
						t, e := w.st3.FinalizeToken(b)
						err, m = e, t.Marshal()
					default:
						ts, e := w.st5.FinalizeTokens(b)
						err = e
						for _, t := range ts {
							m = append(m, t.Marshal()...)
						}
					}
					if err != nil {
						return "err"
					}
					return "ok " + hxv(m)
				}
				behind := append([]byte{}, resp...)[:cut]                                                       // the rest of the honest message in the spare capacity
				junk := append(append([]byte{}, resp[:cut]...), bytes.Repeat([]byte{0x6b}, len(resp))...)[:cut] // unrelated bytes there
				exact := make([]byte, cut)                                                                      // nothing there
				copy(exact, resp[:cut])
				ra, rb, rc := fin(behind), fin(junk), fin(exact[:cut:cut])
				if ra != rb || ra != rc {
					return fmt.Sprintf("!!%s of a response cut to %d bytes depends on what lies behind it in the buffer (rest of the message: %.20s, other bytes: %.20s, nothing: %.20s)", names[which], cut, ra, rb, rc)
				}
				all += ra + ";"
			}
			return all
		}},
		{"type2 CreateTokenRequestWithBlind/Evaluate/FinalizeToken", func(w *c03World, r *Rng) [][]byte {
			b := r.Bytes(256)
			b[0] &= 0x3f
			return [][]byte{r.Bytes(12), r.Bytes(32), w.i2.TokenKeyID(), b, r.Bytes(48)}
		}, func(w *c03World, a [][]byte) string {
			st, err := type2.NewBasicPublicClient().CreateTokenRequestWithBlind(a[0], a[1], a[2], w.i2.TokenKey(), a[3], a[4])
			if err != nil {
				return "err"
			}
			resp, _ := w.i2.Evaluate(st.Request())
			g := guard(resp, 32, 0x55)
			tok, err := st.FinalizeToken(g.slice)
			return fmt.Sprint(hxv(st.Request().Marshal()), hxv(tok.Marshal()), err == nil, g.changedAt())
		}},
		{"type3 attester VerifyRequest/FinalizeIndex", func(w *c03World, r *Rng) [][]byte {
			return [][]byte{w.cl3.blind, w.cl3.pubEnc, r.Bytes(16), w.resp["brk"]}
		},
			func(w *c03World, a [][]byte) string {
				att := type3.NewRateLimitedAttester(newMemCache())
				e1 := att.VerifyRequest(*w.st3.Request(), a[0], a[1], a[2])
				idx, e2 := att.FinalizeIndex(a[1], a[0], a[3], a[2])
				return fmt.Sprint(e1 == nil, e2 == nil, hxv(idx))
			}},
		{"type3 issuer Evaluate(bytes)", func(w *c03World, r *Rng) [][]byte { return [][]byte{w.resp["req3"]} },
			func(w *c03World, a [][]byte) string {
				_, brk, err := w.env.issuer.Evaluate(a[0])
				return fmt.Sprint(hxv(brk), err == nil)
			}},
		{"type3 FinalizeToken(response)", func(w *c03World, r *Rng) [][]byte {
			resp := append([]byte{}, w.resp["resp3"]...)
			if r.IntN(3) == 0 {
				resp[r.IntN(len(resp))] ^= 1 << r.IntN(8) // a response that fails authentication
			}
			return [][]byte{resp}
		}, func(w *c03World, a [][]byte) string {
			tok, err := w.st3.FinalizeToken(a[0])
			tok2, err2 := w.st3.FinalizeToken(a[0]) // the caller retries with the same bytes
			return fmt.Sprint(hxv(tok.Marshal()), err == nil, hxv(tok2.Marshal()), err2 == nil)
		}},
		{"type5 FinalizeTokens(response)", func(w *c03World, r *Rng) [][]byte {
			resp := append([]byte{}, w.resp["resp5"]...)
			if r.IntN(3) == 0 {
				resp[r.IntN(len(resp))] ^= 1 << r.IntN(8)
			}
			return [][]byte{resp}
		}, func(w *c03World, a [][]byte) string {
			ts, err := w.st5.FinalizeTokens(a[0])
			out := fmt.Sprint(err == nil)
			for _, t := range ts {
				out += hxv(t.Marshal())
			}
			ts, err = w.st5.FinalizeTokens(a[0])
			return out + fmt.Sprint(err == nil, len(ts))
		}},
		{"type1/type2 FinalizeToken(response), retried", func(w *c03World, r *Rng) [][]byte {
			r1, r2 := append([]byte{}, w.resp["resp1"]...), append([]byte{}, w.resp["resp2"]...)
			if r.IntN(3) == 0 {
				r1[r.IntN(len(r1))] ^= 1 << r.IntN(8)
				r2[r.IntN(len(r2))] ^= 1 << r.IntN(8)
			}
			return [][]byte{r1, r2}
		}, func(w *c03World, a [][]byte) string {
			t1, e1 := w.st1.FinalizeToken(a[0])
			t2, e2 := w.st2.FinalizeToken(a[1])
			t1b, e1b := w.st1.FinalizeToken(a[0])
			t2b, e2b := w.st2.FinalizeToken(a[1])
			return fmt.Sprint(hxv(t1.Marshal()), hxv(t2.Marshal()), e1 == nil, e2 == nil, hxv(t1b.Marshal()), hxv(t2b.Marshal()), e1b == nil, e2b == nil)
		}},
		// truncated encodings: a decoder that reads past len(data) would pick up the spare capacity
		{"decoders on truncated input", func(w *c03World, r *Rng) [][]byte {
			var out [][]byte
			cut := []int{1, 1, 2, 3, 4, 5, 8, 9}[r.IntN(8)]
			for _, n := range []string{"req1", "req2", "req3", "req5", "inner", "batch", "batchresp", "challenge", "tok1", "tok2", "tok3", "tok5", "resp5", "encap", "spki", "varint-bytes"} {
				b := w.resp[n]
				out = append(out, append([]byte{}, b[:len(b)-min(cut, len(b))]...))
			}
			// lists cut at an element boundary (the declared length then points past the end) and lists whose
			// declared length was enlarged with nothing behind them
			b := w.resp["batch"]
			drop := []int{len(w.resp["req1"]), len(w.resp["req1"]) + len(w.resp["req2"])}[r.IntN(2)]
			out = append(out, append([]byte{}, b[:len(b)-drop]...))
			grown := append([]byte{}, b...)
			_, n := quicwire.ConsumeVarint(grown)
			grown[n-1] += byte(1 + r.IntN(6))
			out = append(out, grown)
			br := w.resp["batchresp"]
			out = append(out, append([]byte{}, br[:len(br)-(2+len(w.resp["resp2"]))]...))
			return out
		}, func(w *c03World, a [][]byte) string {
			q1, q2, q3, q5, qi, qb := &type1.BasicPrivateTokenRequest{}, &type2.BasicPublicTokenRequest{}, &type3.RateLimitedTokenRequest{}, &type5.BatchedPrivateTokenRequest{}, &type3.InnerTokenRequest{}, &batched.BatchedTokenRequest{}
			extra := ""
			for _, b := range a[16:18] {
				qx := &batched.BatchedTokenRequest{}
				extra += fmt.Sprint(qx.Unmarshal(b), len(qx.VerifRequests()))
			}
			rx, ex := batched.UnmarshalBatchedTokenResponses(a[18])
			extra += hxList(rx) + fmt.Sprint(ex == nil)
			out := extra + fmt.Sprint(q1.Unmarshal(a[0]), q2.Unmarshal(a[1]), q3.Unmarshal(a[2]), q5.Unmarshal(a[3]), qi.Unmarshal(a[4]), qb.Unmarshal(a[5]))
			out += hxv(q1.BlindedReq) + hxv(q2.BlindedReq) + hxv(q3.EncryptedTokenRequest) + hxv(q3.Signature) + hxList(q5.BlindedReq)
			for _, tr := range qb.VerifRequests() {
				out += hxv(tr.Marshal())
			}
			rs, e1 := batched.UnmarshalBatchedTokenResponses(a[6])
			out += hxList(rs) + fmt.Sprint(e1 == nil)
			ch, e2 := tokens.UnmarshalTokenChallenge(a[7])
			out += fmt.Sprint(e2 == nil, ch.IssuerName, ch.OriginInfo, hxv(ch.RedemptionNonce))
			t1, e3 := type1.UnmarshalPrivateToken(a[8])
			t2, e4 := type2.UnmarshalToken(a[9])
			t3, e5 := type3.UnmarshalToken(a[10])
			t5, e6 := type5.UnmarshalBatchedPrivateToken(a[11])
			out += fmt.Sprint(e3 == nil, e4 == nil, e5 == nil, e6 == nil, hxv(t1.Authenticator), hxv(t2.Authenticator), hxv(t3.Authenticator), hxv(t5.Authenticator))
			ts, e7 := w.st5.FinalizeTokens(a[12])
			out += fmt.Sprint(e7 == nil, len(ts))
			_, e8 := type3.UnmarshalEncapKey(a[13])
			_, e9 := util.UnmarshalTokenKey(a[14])
			v, n := quicwire.ConsumeVarintBytes(a[15])
			return out + fmt.Sprint(e8 == nil, e9 == nil, hxv(v), n)
		}},
		{"quicwire Append*/Consume*", func(w *c03World, r *Rng) [][]byte { return [][]byte{r.Bytes(5), r.Bytes(40)} },
			func(w *c03World, a [][]byte) string {
				// the destination may be appended to (that is the contract) — only its first len bytes must stay
				dst := append(make([]byte, 0, 64), a[0]...)
				o1 := quicwire.AppendVarintBytes(dst, a[1])
				o2 := quicwire.AppendUint8Bytes(dst[:len(a[0]):len(a[0])], a[1])
				v, n := quicwire.ConsumeVarintBytes(o1[len(a[0]):])
				return fmt.Sprint(hxv(o1), hxv(o2), hxv(v), n, bytes.Equal(dst[:len(a[0])], a[0]))
			}},
	}
}

func init() {
	props["C16"] = runC16
	replayers["c16.op"] = func(c *Ctx, a []string) string { return "replay-needs-world" }
	replayers["c16.history"] = func(c *Ctx, a []string) string { return "replay-needs-world" }
}

func runC16(c *Ctx) {
	r := NewRng(c.Seed, "c16")
	w := newC03World(c, r)
	ops := c16Ops()
	c.notes["operations"] = len(ops)
	spares := []int{0, 1, 16, 64, 300}
	reps := c.Pick(6, 150)
	for _, op := range ops {
		for k := 0; k < reps; k++ {
			base := op.args(w, r)
			spare := spares[k%len(spares)]
			var results []string
			line := fmt.Sprintf("c16.op %s spare=%d", strings.ReplaceAll(op.name, " ", "_"), spare)
			for i, a := range base {
				line += fmt.Sprintf(" a%d=%s", i, hx(a))
			}
			verdict := c.Op(line, func() string {
				verdict := "unchanged same-result"
				for _, fill := range []byte{0xa5, 0x3c} {
					var gs []*guarded
					var args [][]byte
					for _, a := range base {
						g := guard(a, spare, fill)
						gs = append(gs, g)
						args = append(args, g.slice)
					}
					reseedRand(c.Seed, "c16:"+op.name)
					res := op.run(w, args)
					results = append(results, res)
					if i := strings.Index(res, "!!"); i >= 0 {
						verdict = res[i+2:]
					}
					for i, g := range gs {
						if p := g.changedAt(); p >= 0 {
							where := "within its length"
							if p >= len(base[i]) {
								where = "in its spare capacity"
							} else if p < 0 {
								where = "before it"
							}
							verdict = fmt.Sprintf("argument %d changed at offset %d (%s)", i, p, where)
						}
					}
				}
				if len(results) == 2 && results[0] != results[1] && verdict == "unchanged same-result" {
					verdict = "result depends on the contents of the spare capacity"
				}
				return verdict
			})
			c.Count("op:" + op.name)
			c.Direct(verdict == "unchanged same-result", "side effect on caller memory: "+verdict, map[string]any{"operation": op.name, "spare": spare, "line": line})
		}
	}
	// ---- histories: values handed out earlier keep their contents across later calls ----
	for k := 0; k < c.Pick(10, 300); k++ {
		reseedRand(c.Seed, fmt.Sprintf("c16-hist-%d", k))
		line := fmt.Sprintf("c16.history %d", k)
		verdict := c.Op(line, func() string {
			ch, nonce := r.Bytes(10), r.Bytes(32)
			// type 1
			st1, err := type1.NewBasicPrivateClient().CreateTokenRequest(ch, nonce, w.i1.TokenKeyID(), w.i1.TokenKey())
			must(err)
			enc1 := st1.Request().Marshal()
			encCopy := append([]byte{}, enc1...)
			resp, _ := w.i1.Evaluate(st1.Request())
			respB, _ := w.i1.Evaluate(st1.Request()) // another valid response (fresh proof)
			tokA, err := st1.FinalizeToken(resp)
			must(err)
			a1 := append([]byte{}, tokA.Marshal()...)
			nA, cA, kA, auA := append([]byte{}, tokA.Nonce...), append([]byte{}, tokA.Context...), append([]byte{}, tokA.KeyID...), append([]byte{}, tokA.Authenticator...)
			st1.FinalizeToken(respB)
			st1.FinalizeToken(resp[:60]) // a failing finalize
			st1.Request().Marshal()
			if !bytes.Equal(enc1, encCopy) || !bytes.Equal(tokA.Marshal(), a1) || !bytes.Equal(tokA.Nonce, nA) || !bytes.Equal(tokA.Context, cA) || !bytes.Equal(tokA.KeyID, kA) || !bytes.Equal(tokA.Authenticator, auA) {
				return "type1: an earlier request encoding or token changed after finalizing again"
			}
			// type 2
			st2, err := type2.NewBasicPublicClient().CreateTokenRequest(ch, nonce, w.i2.TokenKeyID(), w.i2.TokenKey())
			must(err)
			enc2 := append([]byte{}, st2.Request().Marshal()...)
			resp2, _ := w.i2.Evaluate(st2.Request())
			t2, err := st2.FinalizeToken(resp2)
			must(err)
			m2 := append([]byte{}, t2.Marshal()...)
			st2.FinalizeToken(resp2)
			bad := append([]byte{}, resp2...)
			bad[5] ^= 1
			st2.FinalizeToken(bad)
			if !bytes.Equal(st2.Request().Marshal(), enc2) || !bytes.Equal(t2.Marshal(), m2) {
				return "type2: an earlier request encoding or token changed after finalizing again"
			}
			// type 3: request, its fields and its encoding across finalize / evaluate again
			st3, err := type3.NewRateLimitedClientFromSecret(w.cl3.secret).CreateTokenRequest(ch, nonce, w.cl3.blind, w.env.issuer.TokenKeyID(), w.env.issuer.TokenKey(), "origin.example", w.env.issuer.NameKey())
			must(err)
			rq := st3.Request()
			ct := append([]byte{}, rq.EncryptedTokenRequest...)
			enc3 := append([]byte{}, rq.Marshal()...)
			resp3, _, err := w.env.issuer.Evaluate(enc3)
			must(err)
			t3, err := st3.FinalizeToken(resp3)
			must(err)
			m3 := append([]byte{}, t3.Marshal()...)
			resp3b, _, _ := w.env.issuer.Evaluate(enc3)
			st3.FinalizeToken(resp3b)
			st3.FinalizeToken(resp3b[:20])
			if !bytes.Equal(rq.EncryptedTokenRequest, ct) || !bytes.Equal(rq.Marshal(), enc3) || !bytes.Equal(t3.Marshal(), m3) {
				return "type3: the request's ciphertext, its encoding or an earlier token changed after finalizing"
			}
			// type 5
			st5, err := type5.NewBatchedPrivateClient().CreateTokenRequest(ch, [][]byte{nonce, r.Bytes(32)}, w.i5.TokenKeyID(), w.i5.TokenKey())
			must(err)
			enc5 := append([]byte{}, st5.Request().Marshal()...)
			resp5, _ := w.i5.Evaluate(st5.Request())
			ts, err := st5.FinalizeTokens(resp5)
			must(err)
			m5 := append(append([]byte{}, ts[0].Marshal()...), ts[1].Marshal()...)
			resp5b, _ := w.i5.Evaluate(st5.Request())
			st5.FinalizeTokens(resp5b)
			if !bytes.Equal(st5.Request().Marshal(), enc5) || !bytes.Equal(append(append([]byte{}, ts[0].Marshal()...), ts[1].Marshal()...), m5) {
				return "type5: an earlier request encoding or token changed after finalizing again"
			}
			// issuer Evaluate only reads the request it is given: the request object's fields (for a request that was never
			// encoded, for one that was, and for one decoded from wire bytes, whose fields are views of those bytes) and the
			// wire bytes keep their contents
			{
				nb1, nb2, nb5 := r.Bytes(32), r.Bytes(32), [][]byte{r.Bytes(32), r.Bytes(32), r.Bytes(32)}
				f1, err := type1.NewBasicPrivateClient().CreateTokenRequest(ch, nb1, w.i1.TokenKeyID(), w.i1.TokenKey())
				must(err)
				f2, err := type2.NewBasicPublicClient().CreateTokenRequest(ch, nb2, w.i2.TokenKeyID(), w.i2.TokenKey())
				must(err)
				f5, err := type5.NewBatchedPrivateClient().CreateTokenRequest(ch, nb5, w.i5.TokenKeyID(), w.i5.TokenKey())
				must(err)
				snap := func(fs [][]byte) [][]byte {
					var o [][]byte
					for _, f := range fs {
						o = append(o, append([]byte{}, f[:cap(f)]...))
					}
					return o
				}
				same := func(fs, held [][]byte) bool {
					for i := range fs {
						if !bytes.Equal(fs[i][:cap(fs[i])], held[i]) {
							return false
						}
					}
					return true
				}
				// never encoded before the issuer sees them
				h1, h2, h5 := snap([][]byte{f1.Request().BlindedReq}), snap([][]byte{f2.Request().BlindedReq}), snap(f5.Request().BlindedReq)
				w.i1.Evaluate(f1.Request())
				w.i2.Evaluate(f2.Request())
				w.i5.Evaluate(f5.Request())
				if !same([][]byte{f1.Request().BlindedReq}, h1) || !same([][]byte{f2.Request().BlindedReq}, h2) || !same(f5.Request().BlindedReq, h5) {
					return "issuer Evaluate changed the fields of the request object it was given"
				}
				e1, e2, e5 := f1.Request().Marshal(), f2.Request().Marshal(), f5.Request().Marshal()
				d1, d2, d5 := &type1.BasicPrivateTokenRequest{}, &type2.BasicPublicTokenRequest{}, &type5.BatchedPrivateTokenRequest{}
				w1, w2, w5 := append([]byte{}, e1...), append([]byte{}, e2...), append([]byte{}, e5...)
				if !d1.Unmarshal(w1) || !d2.Unmarshal(w2) || !d5.Unmarshal(w5) {
					return "honest request encoding refused"
				}
				w.i1.Evaluate(d1)
				w.i2.Evaluate(d2)
				w.i5.Evaluate(d5)
				w.i5.Evaluate(d5)
				if !bytes.Equal(w1, e1) || !bytes.Equal(w2, e2) || !bytes.Equal(w5, e5) {
					return "issuer Evaluate changed the wire bytes its request was decoded from"
				}
				if !bytes.Equal(d1.Marshal(), e1) || !bytes.Equal(d2.Marshal(), e2) || !bytes.Equal(d5.Marshal(), e5) {
					return "issuer Evaluate changed the request object decoded from the wire"
				}
				// the generic batch issuer likewise
				breq, err := batched.NewBasicClient().CreateTokenRequest([]tokens.TokenRequestWithDetails{f1.Request(), f2.Request()})
				must(err)
				be := append([]byte{}, breq.Marshal()...)
				bw := append([]byte{}, be...)
				bd := &batched.BatchedTokenRequest{}
				if !bd.Unmarshal(bw) {
					return "honest batch encoding refused"
				}
				w.bi.EvaluateBatch(bd)
				if !bytes.Equal(bw, be) || !bytes.Equal(bd.Marshal(), be) || !same([][]byte{f1.Request().BlindedReq}, h1) || !same([][]byte{f2.Request().BlindedReq}, h2) {
					return "EvaluateBatch changed the batch request it was given, or the wire bytes it was decoded from"
				}
			}
			// issuer: evaluating again does not disturb an earlier response
			q := &type1.BasicPrivateTokenRequest{}
			q.Unmarshal(enc1)
			r1, _ := w.i1.Evaluate(q)
			r1c := append([]byte{}, r1...)
			w.i1.Evaluate(q)
			w.i1.TokenKeyID()
			if !bytes.Equal(r1, r1c) {
				return "type1 issuer: an earlier response changed after evaluating again"
			}
			// request objects: an encoding handed out by Marshal survives a later Unmarshal into the same object
			{
				A1 := (&type1.BasicPrivateTokenRequest{TokenKeyID: 0x11, BlindedReq: r.Bytes(49)}).Marshal()
				B1 := (&type1.BasicPrivateTokenRequest{TokenKeyID: 0x22, BlindedReq: r.Bytes(49)}).Marshal()
				A2 := (&type2.BasicPublicTokenRequest{TokenKeyID: 0x11, BlindedReq: r.Bytes(256)}).Marshal()
				B2 := (&type2.BasicPublicTokenRequest{TokenKeyID: 0x22, BlindedReq: r.Bytes(256)}).Marshal()
				A3 := (&type3.RateLimitedTokenRequest{RequestKey: r.Bytes(49), NameKeyID: r.Bytes(32), EncryptedTokenRequest: r.Bytes(40), Signature: r.Bytes(96)}).Marshal()
				B3 := (&type3.RateLimitedTokenRequest{RequestKey: r.Bytes(49), NameKeyID: r.Bytes(32), EncryptedTokenRequest: r.Bytes(40), Signature: r.Bytes(96)}).Marshal()
				A5 := (&type5.BatchedPrivateTokenRequest{TokenKeyID: 0x11, BlindedReq: [][]byte{r.Bytes(32), r.Bytes(32)}}).Marshal()
				B5 := (&type5.BatchedPrivateTokenRequest{TokenKeyID: 0x22, BlindedReq: [][]byte{r.Bytes(32), r.Bytes(32)}}).Marshal()
				AI := type3.VerifNewInnerTokenRequest(1, r.Bytes(256), r.Bytes(32)).Marshal()
				BI := type3.VerifNewInnerTokenRequest(2, r.Bytes(256), r.Bytes(32)).Marshal()
				type obj struct {
					name      string
					unmarshal func([]byte) bool
					marshal   func() []byte
					a, b      []byte
					fields    func() [][]byte
				}
				q1, q2, q3, q5, qi := &type1.BasicPrivateTokenRequest{}, &type2.BasicPublicTokenRequest{}, &type3.RateLimitedTokenRequest{}, &type5.BatchedPrivateTokenRequest{}, &type3.InnerTokenRequest{}
				for _, o := range []obj{{"type1", q1.Unmarshal, q1.Marshal, A1, B1, func() [][]byte { return [][]byte{q1.BlindedReq} }},
					{"type2", q2.Unmarshal, q2.Marshal, A2, B2, func() [][]byte { return [][]byte{q2.BlindedReq} }},
					{"type3", q3.Unmarshal, q3.Marshal, A3, B3, func() [][]byte { return [][]byte{q3.RequestKey, q3.NameKeyID, q3.EncryptedTokenRequest, q3.Signature} }},
					{"type5", q5.Unmarshal, q5.Marshal, A5, B5, func() [][]byte { return q5.BlindedReq }},
					{"inner", qi.Unmarshal, qi.Marshal, AI, BI, func() [][]byte { _, bm, po := qi.VerifFields(); return [][]byte{bm, po} }}} {
					if !o.unmarshal(o.a) {
						return o.name + " request: honest encoding refused"
					}
					heldFields, heldCopy := o.fields(), [][]byte{}
					for _, f := range heldFields {
						heldCopy = append(heldCopy, append([]byte{}, f...))
					}
					first := o.marshal()
					snap := append([]byte{}, first...)
					inA := append([]byte{}, o.a...)
					if !o.unmarshal(o.b) {
						return o.name + " request: honest encoding refused"
					}
					for k := range heldFields {
						if !bytes.Equal(heldFields[k], heldCopy[k]) {
							return o.name + " request: a field decoded earlier (still held by the caller) changed when the object decoded another request"
						}
					}
					second := o.marshal()
					if !bytes.Equal(first, snap) {
						return o.name + " request: the encoding returned by an earlier Marshal changed when the object decoded another request"
					}
					if !bytes.Equal(second, o.b) || !bytes.Equal(o.a, inA) {
						return o.name + " request: wrong encoding after decoding another request, or the decoder wrote into its input"
					}
				}
			}
			_ = oprf.SuiteP384
			return "stable"
		})
		c.Count("history")
		c.Direct(verdict == "stable", "values handed out earlier changed: "+verdict, map[string]any{"history": k})
	}
}
