package main

import (
	"bytes"
	"crypto/elliptic"
	"crypto/sha512"
	"encoding/hex"
	"fmt"
	"runtime"
	"sort"
	"strconv"
	"strings"
	"sync"
	"time"

	"github.com/cloudflare/pat-go/ecdsa"
	"github.com/cloudflare/pat-go/tokens/type3"
	"golang.org/x/crypto/cryptobyte"
)

// memCache is a ClientStateCache that also records every Put (C06).
type memCache struct {
	m    map[string]*type3.ClientState
	puts []string
}

func newMemCache() *memCache { return &memCache{m: map[string]*type3.ClientState{}} }
func (c *memCache) Get(id string) (*type3.ClientState, bool) {
	s, ok := c.m[id]
	return s, ok
}
func (c *memCache) Put(id string, s *type3.ClientState) {
	c.puts = append(c.puts, id)
	c.m[id] = s
}

// gateCache is a thread-safe cache whose first Get for one chosen client parks until released: it pins one
// interleaving of two overlapping attester calls deterministically.
type gateCache struct {
	mu               sync.Mutex
	m                map[string]*type3.ClientState
	gate             string
	once             sync.Once
	entered, release chan struct{}
}

func (c *gateCache) Get(id string) (*type3.ClientState, bool) {
	if id == c.gate {
		c.once.Do(func() { close(c.entered); <-c.release })
	}
	c.mu.Lock()
	defer c.mu.Unlock()
	s, ok := c.m[id]
	return s, ok
}

func (c *gateCache) Put(id string, s *type3.ClientState) {
	c.mu.Lock()
	defer c.mu.Unlock()
	c.m[id] = s
}

// c09Overlap: VerifyRequest for client X is parked inside its cache lookup while client Y is verified and bound;
// afterwards each client's bindings are its own.
func c09Overlap(w *c09World, bindBeforeRelease bool) string {
	X, Y := w.clients[0], w.clients[1]
	gc := &gateCache{m: map[string]*type3.ClientState{}, gate: hex.EncodeToString(X.pubEnc), entered: make(chan struct{}), release: make(chan struct{})}
	att := type3.NewRateLimitedAttester(gc)
	done := make(chan error, 1)
	go func() { done <- att.VerifyRequest(X.request, X.blind, X.pubEnc, w.anons[1]) }()
	select {
	case <-gc.entered:
	case <-time.After(20 * time.Second):
		return "the parked call never reached the cache"
	}
	fin := func(c *t3Client, ci, k, a int) error {
		_, err := att.FinalizeIndex(c.pubEnc, c.blind, w.blinded[[2]int{ci, k}], w.anons[a])
		return err
	}
	if err := att.VerifyRequest(Y.request, Y.blind, Y.pubEnc, w.anons[1]); err != nil {
		return "the overlapping honest request was refused"
	}
	var e1 error
	if bindBeforeRelease {
		e1 = fin(Y, 1, 0, 1)
	}
	close(gc.release)
	if err := <-done; err != nil {
		return "the parked honest request was refused"
	}
	if !bindBeforeRelease {
		e1 = fin(Y, 1, 0, 1)
	}
	if e1 != nil {
		return "a first binding was refused"
	}
	if err := att.VerifyRequest(Y.request, Y.blind, Y.pubEnc, w.anons[1]); err != nil {
		return "a repeated honest request was refused"
	}
	if fin(Y, 1, 0, 3) == nil {
		return "after two overlapping VerifyRequest calls, a second anonymous origin ID was accepted for an index of the other client"
	}
	if fin(Y, 1, 0, 1) != nil {
		return "after two overlapping VerifyRequest calls, the accepted pair of the other client is refused"
	}
	if fin(X, 0, 0, 3) != nil {
		return "after two overlapping VerifyRequest calls, the parked client's first binding is refused"
	}
	if fin(X, 0, 0, 1) == nil {
		return "after two overlapping VerifyRequest calls, a second anonymous origin ID was accepted for an index of the parked client"
	}
	return "-"
}

func t3ctx(label string) []byte {
	b := cryptobyte.NewBuilder(nil)
	b.AddUint16(type3.RateLimitedTokenType)
	b.AddBytes([]byte(label))
	return b.BytesOrPanic()
}

// t3Client is a rate-limited client identity: secret, public key encoding, one request blind and
// a directly constructed, validly signed request for it (no HPKE/RSA needed for the attester).
type t3Client struct {
	secret   []byte
	sk       *ecdsa.PrivateKey
	pubEnc   []byte
	blind    []byte
	blindKey *ecdsa.PrivateKey
	reqKey   *ecdsa.PublicKey
	request  type3.RateLimitedTokenRequest
}

func signedRequest(sk, blindKey *ecdsa.PrivateKey, reqKeyEnc, nameKeyID, ct []byte) type3.RateLimitedTokenRequest {
	b := cryptobyte.NewBuilder(nil)
	b.AddUint16(type3.RateLimitedTokenType)
	b.AddBytes(reqKeyEnc)
	b.AddBytes(nameKeyID)
	b.AddUint16LengthPrefixed(func(b *cryptobyte.Builder) { b.AddBytes(ct) })
	h := sha512.Sum384(b.BytesOrPanic())
	r, s, err := ecdsa.BlindKeySignWithContext(theRand, sk, blindKey, h[:], t3ctx("ClientBlind"))
	must(err)
	sig := make([]byte, 96)
	r.FillBytes(sig[:48])
	s.FillBytes(sig[48:])
	return type3.RateLimitedTokenRequest{RequestKey: reqKeyEnc, NameKeyID: nameKeyID, EncryptedTokenRequest: ct, Signature: sig}
}

func newT3Client(r *Rng) *t3Client { return newT3ClientBlind(r, r.Bytes(48)) }

// newT3ClientBlind: the request blind is opaque bytes to every party (it is only ever hashed into the blinding factor)
func newT3ClientBlind(r *Rng, blind []byte) *t3Client {
	c := &t3Client{secret: r.Bytes(48), blind: blind}
	c.sk, _ = ecdsa.CreateKey(elliptic.P384(), c.secret)
	c.pubEnc = elliptic.MarshalCompressed(elliptic.P384(), c.sk.X, c.sk.Y)
	c.blindKey, _ = ecdsa.CreateKey(elliptic.P384(), c.blind)
	rk, err := ecdsa.BlindPublicKeyWithContext(elliptic.P384(), &c.sk.PublicKey, c.blindKey, t3ctx("ClientBlind"))
	must(err)
	c.reqKey = rk
	rkEnc := elliptic.MarshalCompressed(elliptic.P384(), rk.X, rk.Y)
	c.request = signedRequest(c.sk, c.blindKey, rkEnc, r.Bytes(32), r.Bytes(40))
	return c
}

// issuerBlinded is what the issuer returns for a request of client c to an origin with index key k.
func issuerBlinded(c *t3Client, k *ecdsa.PrivateKey) []byte {
	p, err := ecdsa.BlindPublicKeyWithContext(elliptic.P384(), c.reqKey, k, t3ctx("IssuerBlind"))
	must(err)
	return elliptic.MarshalCompressed(elliptic.P384(), p.X, p.Y)
}

type c09World struct {
	clients  []*t3Client
	keys     []*ecdsa.PrivateKey // origin index keys
	anons    [][]byte
	blinded  map[[2]int][]byte // (client, key) -> issuer-blinded request key
	idxOrd   map[string]int    // index hex -> ordinal (filled from the reference computation)
	idxOf    map[[2]int]int
	anonOrd  map[string]int
	clientOf map[string]int
}

// refIndex computes the anonymous issuer origin ID outside the attester: HKDF-SHA-384 with the
// client key as salt over the client key blinded by the origin index key.
func refIndex(c *t3Client, k *ecdsa.PrivateKey) []byte {
	p, err := ecdsa.BlindPublicKeyWithContext(elliptic.P384(), &c.sk.PublicKey, k, t3ctx("IssuerBlind"))
	must(err)
	idx, err := type3.VerifComputeIndex(c.pubEnc, elliptic.MarshalCompressed(elliptic.P384(), p.X, p.Y))
	must(err)
	return idx
}

func newC09World(r *Rng, nClients, nKeys, nAnons int) *c09World {
	w := &c09World{blinded: map[[2]int][]byte{}, idxOrd: map[string]int{}, idxOf: map[[2]int]int{}, anonOrd: map[string]int{}, clientOf: map[string]int{}}
	for i := 0; i < nClients; i++ {
		// request blinds of every shape a client may pick: random, unreduced (all ones), longer than a scalar, zero, empty
		blind := r.Bytes(48)
		switch i % 6 {
		case 1:
			blind = bytes.Repeat([]byte{0xff}, 48)
		case 2:
			blind = r.Bytes(49 + r.IntN(40))
		case 3:
			blind = []byte{}
		case 4:
			blind = make([]byte, 48)
		}
		c := newT3ClientBlind(r, blind)
		w.clients = append(w.clients, c)
		w.clientOf[hex.EncodeToString(c.pubEnc)] = i
	}
	for i := 0; i < nKeys; i++ {
		k, _ := ecdsa.CreateKey(elliptic.P384(), r.Bytes(48))
		w.keys = append(w.keys, k)
	}
	for i := 0; i < nAnons; i++ {
		// anonymous origin IDs are opaque bytes chosen by the client: the empty one, an ordinary one, a single zero byte, a long one
		a := r.Bytes(32)
		switch i % 4 {
		case 0:
			a = []byte{}
		case 2:
			a = []byte{0}
		case 3:
			a = r.Bytes(64)
		}
		w.anons = append(w.anons, a)
		w.anonOrd[hex.EncodeToString(a)] = i
	}
	for ci, c := range w.clients {
		for ki, k := range w.keys {
			w.blinded[[2]int{ci, ki}] = issuerBlinded(c, k)
			ix := hex.EncodeToString(refIndex(c, k))
			if _, ok := w.idxOrd[ix]; !ok {
				w.idxOrd[ix] = len(w.idxOrd)
			}
			w.idxOf[[2]int{ci, ki}] = w.idxOrd[ix]
		}
	}
	return w
}

type c09Step struct {
	kind    byte // 'v', 'f', 'b'
	c, k, a int
}

func (w *c09World) stepStr(s c09Step) string {
	switch s.kind {
	case 'v':
		return fmt.Sprintf("v:%d", s.c)
	case 'b':
		return fmt.Sprintf("b:%d", s.c)
	case 'x':
		return fmt.Sprintf("x:%d", s.c)
	}
	return fmt.Sprintf("f:%d:%d:%d", s.c, w.idxOf[[2]int{s.c, s.k}], s.a)
}

// runHistory executes a history on a fresh attester and returns the outcome line and the direct-oracle verdict.
func (w *c09World) runHistory(steps []c09Step) (string, string) {
	cache := newMemCache()
	att := type3.NewRateLimitedAttester(cache)
	var outs []string
	// direct oracle state (the property itself, stated over observed outcomes)
	verified := map[int]bool{}
	bound := map[[2]int]int{}
	bad := ""
	snapCI := func() string { return w.dump(cache, true) }
	for _, s := range steps {
		cl := w.clients[s.c]
		before := snapCI()
		beforeAll := w.dump(cache, false)
		switch s.kind {
		case 'v':
			err := att.VerifyRequest(cl.request, cl.blind, cl.pubEnc, w.anons[0])
			if err == nil {
				outs = append(outs, "verified")
				verified[s.c] = true
			} else {
				outs = append(outs, "reject")
				bad = "honest request refused by VerifyRequest"
			}
		case 'x':
			// another client's correctly signed request presented with this client's key (or, alternately, a wrong
			// blind): VerifyRequest must refuse it and must not create state for this client
			other := w.clients[(s.c+1)%len(w.clients)]
			var err error
			if len(outs)%2 == 0 {
				err = att.VerifyRequest(other.request, other.blind, cl.pubEnc, w.anons[0])
			} else {
				err = att.VerifyRequest(cl.request, other.blind, cl.pubEnc, w.anons[0])
			}
			if err == nil {
				outs = append(outs, "verified")
				bad = "an inauthentic request was verified"
			} else {
				outs = append(outs, "reject")
			}
			if w.dump(cache, false) != beforeAll {
				bad = "a rejected VerifyRequest created or changed client state"
			}
		case 'b':
			junk := append([]byte{}, w.blinded[[2]int{s.c, 0}]...)
			junk[0] = 0x05
			_, err := att.FinalizeIndex(cl.pubEnc, cl.blind, junk, w.anons[0])
			if err == nil {
				outs = append(outs, "idx?")
				bad = "malformed key accepted by FinalizeIndex"
			} else {
				outs = append(outs, "reject")
			}
			if snapCI() != before {
				bad = "a rejected call changed accepted bindings"
			}
		default:
			idx, err := att.FinalizeIndex(cl.pubEnc, cl.blind, w.blinded[[2]int{s.c, s.k}], w.anons[s.a])
			i := w.idxOf[[2]int{s.c, s.k}]
			key := [2]int{s.c, i}
			prev, isBound := bound[key]
			if err == nil {
				o, ok := w.idxOrd[hex.EncodeToString(idx)]
				if !ok {
					outs = append(outs, "idx?"+hex.EncodeToString(idx))
					bad = "index differs from the reference computation"
				} else {
					outs = append(outs, fmt.Sprintf("idx#%d", o))
					if o != i {
						bad = "index differs from the reference computation"
					}
				}
				if !verified[s.c] {
					bad = "client without a verified request was served"
				}
				if isBound && prev != s.a {
					bad = "two different anonymous origin IDs accepted for one index of one client"
				}
				bound[key] = s.a
			} else {
				outs = append(outs, "reject")
				if verified[s.c] && (!isBound || prev == s.a) {
					bad = "repeat of an accepted pair, or a pair with an unbound index, was rejected"
				}
				if snapCI() != before {
					bad = "a rejected call changed accepted bindings"
				}
			}
		}
	}
	return "ok " + strings.Join(outs, " ") + " | " + w.dump(cache, false), bad
}

// dump renders the cache with ordinals: c<k>{oi:a>i,..;ci:i>a,..}, sorted.
func (w *c09World) dump(cache *memCache, ciOnly bool) string {
	var ids []string
	for id := range cache.m {
		ids = append(ids, id)
	}
	sort.Slice(ids, func(i, j int) bool { return w.clientOf[ids[i]] < w.clientOf[ids[j]] })
	var parts []string
	for _, id := range ids {
		oi, ci := cache.m[id].VerifSnapshot()
		var os, cs []string
		for _, p := range oi {
			os = append(os, fmt.Sprintf("%d>%d", w.anonOrd[p[0]], w.idxOrd[p[1]]))
		}
		for _, p := range ci {
			cs = append(cs, fmt.Sprintf("%d>%d", w.idxOrd[p[0]], w.anonOrd[p[1]]))
		}
		sortNum(os)
		sortNum(cs)
		if ciOnly {
			parts = append(parts, fmt.Sprintf("c%d{%s}", w.clientOf[id], strings.Join(cs, ",")))
		} else {
			parts = append(parts, fmt.Sprintf("c%d{oi:%s;ci:%s}", w.clientOf[id], strings.Join(os, ","), strings.Join(cs, ",")))
		}
	}
	if len(parts) == 0 {
		return "empty"
	}
	return strings.Join(parts, " ")
}

func sortNum(xs []string) {
	sort.Slice(xs, func(i, j int) bool {
		a, _ := strconv.Atoi(strings.SplitN(xs[i], ">", 2)[0])
		b, _ := strconv.Atoi(strings.SplitN(xs[j], ">", 2)[0])
		return a < b
	})
}

func parMap[T any](n int, f func(i int) T) []T {
	out := make([]T, n)
	var wg sync.WaitGroup
	w := runtime.NumCPU()
	ch := make(chan int, 256)
	for k := 0; k < w; k++ {
		wg.Add(1)
		go func() {
			defer wg.Done()
			for i := range ch {
				out[i] = f(i)
			}
		}()
	}
	for i := 0; i < n; i++ {
		ch <- i
	}
	close(ch)
	wg.Wait()
	return out
}

func init() {
	props["C09"] = runC09
	// replay: the world is rebuilt from the seed; steps are given with (client, key, anon) triples
	replayers["c09.hist"] = func(c *Ctx, a []string) string { return "replay-needs-world" }
}

func runC09(c *Ctx) {
	r := NewRng(c.Seed, "c09")
	// small world for exhaustive histories: 2 clients, 2 index keys (3 origins, two sharing a key), 2 anon IDs
	w := newC09World(r, 2, 2, 2)
	var alpha []c09Step
	for ci := 0; ci < 2; ci++ {
		alpha = append(alpha, c09Step{kind: 'v', c: ci})
	}
	for ci := 0; ci < 2; ci++ {
		for k := 0; k < 2; k++ {
			for a := 0; a < 2; a++ {
				alpha = append(alpha, c09Step{kind: 'f', c: ci, k: k, a: a})
			}
		}
	}
	alpha = append(alpha, c09Step{kind: 'b', c: 0})
	alpha = append(alpha, c09Step{kind: 'x', c: 1})
	var hists [][]c09Step
	var rec func(pre []c09Step, d int)
	rec = func(pre []c09Step, d int) {
		if len(pre) > 0 {
			hists = append(hists, append([]c09Step{}, pre...))
		}
		if d == 0 {
			return
		}
		for _, s := range alpha {
			rec(append(pre, s), d-1)
		}
	}
	depth := c.Pick(3, 4)
	rec(nil, depth)
	c.notes["alphabet"] = len(alpha)
	c.notes["exhaustive_history_length"] = depth
	c.notes["exhaustive_histories"] = len(hists)
	emit := func(w *c09World, hists [][]c09Step, tag string) {
		type res struct{ out, bad string }
		rs := parMap(len(hists), func(i int) res {
			o := protect(func() string {
				out, bad := w.runHistory(hists[i])
				if bad != "" {
					return out + "\x00" + bad
				}
				return out
			})
			if k := strings.IndexByte(o, 0); k >= 0 {
				return res{o[:k], o[k+1:]}
			}
			return res{o, ""}
		})
		for i, h := range hists {
			var ss []string
			for _, s := range h {
				ss = append(ss, w.stepStr(s))
			}
			line := "c09.hist " + strings.Join(ss, " ")
			c.Op(line, func() string { return rs[i].out })
			c.Count(fmt.Sprintf("%s:len%d", tag, len(h)))
			if strings.Contains(rs[i].out, "reject") {
				c.Count(tag + ":has-reject")
			}
			c.Direct(rs[i].bad == "" && rs[i].out != "panic", "attester bookkeeping: "+rs[i].bad, map[string]any{"history": strings.Join(ss, " "), "impl": rs[i].out})
		}
	}
	emit(w, hists, "exhaustive")

	// random longer histories over a bigger world: 4 clients, 4 keys (5 origins), 4 anon IDs
	w2 := newC09World(r, 4, 4, 4)
	for k := 0; k < c.Pick(3, 20); k++ {
		out := c.Op(fmt.Sprintf("c03.probe c09.overlap %d", k), func() string { return c09Overlap(w2, k%2 == 0) })
		c.Count("overlap")
		c.Direct(out == "-", "overlapping attester calls: "+out, map[string]any{"round": k})
	}
	n := c.Pick(1500, 40000)
	var rh [][]c09Step
	for i := 0; i < n; i++ {
		L := 6 + r.IntN(35)
		var h []c09Step
		for j := r.IntN(4); j > 0; j-- {
			h = append(h, c09Step{kind: 'v', c: r.IntN(4)})
		}
		for j := 0; j < L; j++ {
			switch x := r.IntN(20); {
			case x < 3:
				h = append(h, c09Step{kind: 'v', c: r.IntN(4)})
			case x == 3:
				h = append(h, c09Step{kind: 'b', c: r.IntN(4)})
			case x == 4:
				h = append(h, c09Step{kind: 'x', c: r.IntN(4)})
			default:
				h = append(h, c09Step{kind: 'f', c: r.IntN(4), k: r.IntN(4), a: r.IntN(4)})
			}
		}
		rh = append(rh, h)
	}
	emit(w2, rh, "random")
	_ = bytes.Equal
}
