package main

import (
	"bytes"
	"crypto/elliptic"
	"fmt"
	"strconv"
	"strings"

	hpke "github.com/cisco/go-hpke"
	"github.com/cloudflare/pat-go/quicwire"
	"github.com/cloudflare/pat-go/tokens"
	"github.com/cloudflare/pat-go/tokens/batched"
	"github.com/cloudflare/pat-go/tokens/type1"
	"github.com/cloudflare/pat-go/tokens/type2"
	"github.com/cloudflare/pat-go/tokens/type3"
	"github.com/cloudflare/pat-go/tokens/type5"
)

func fmtToken(t tokens.Token) string {
	return fmt.Sprintf("ok %d %s %s %s %s m=%s", t.TokenType, hxv(t.Nonce), hxv(t.Context), hxv(t.KeyID), hxv(t.Authenticator), hxv(t.Marshal()))
}

func hxList(xs [][]byte) string {
	if len(xs) == 0 {
		return "[]"
	}
	ss := make([]string, len(xs))
	for i, x := range xs {
		ss[i] = hxv(x)
	}
	return strings.Join(ss, ",")
}

func unhxList(s string) [][]byte {
	if s == "[]" {
		return [][]byte{}
	}
	var out [][]byte
	for _, p := range strings.Split(s, ",") {
		out = append(out, unhx(p))
	}
	return out
}

func u8arg(s string) uint8 {
	v, _ := strconv.ParseUint(s, 10, 8)
	return uint8(v)
}

func fmtReqWD(r tokens.TokenRequestWithDetails) string {
	switch q := r.(type) {
	case *type1.BasicPrivateTokenRequest:
		return fmt.Sprintf("1:%d:%s", q.TokenKeyID, hxv(q.BlindedReq))
	case *type2.BasicPublicTokenRequest:
		return fmt.Sprintf("2:%d:%s", q.TokenKeyID, hxv(q.BlindedReq))
	}
	return "?"
}

func parseReqWD(s string) tokens.TokenRequestWithDetails {
	p := strings.Split(s, ":")
	switch p[0] {
	case "1":
		return &type1.BasicPrivateTokenRequest{TokenKeyID: u8arg(p[1]), BlindedReq: unhx(p[2])}
	case "2":
		return &type2.BasicPublicTokenRequest{TokenKeyID: u8arg(p[1]), BlindedReq: unhx(p[2])}
	}
	panic("bad req " + s)
}

// pkOk is the HPKE library's verdict on public-key bytes of a KEM (oracle column of c04.encap).
func pkOk(kem uint16, pk []byte) bool {
	suite, err := hpke.AssembleCipherSuite(hpke.KEMID(kem), hpke.KDF_HKDF_SHA256, hpke.AEAD_AESGCM128)
	if err != nil {
		return false
	}
	_, err = suite.KEM.DeserializePublicKey(pk)
	return err == nil
}

// objOps runs a history of marshal ("m") / unmarshal ("u:<hex>") calls on one request object.
func objOps(ops []string, marshal func() []byte, unmarshal func([]byte) bool, dump func() string) string {
	var out []string
	for _, op := range ops {
		if op == "m" {
			out = append(out, "m="+hxv(marshal()))
		} else {
			ok := unmarshal(unhx(op[2:]))
			if ok {
				out = append(out, "u=1")
			} else {
				out = append(out, "u=0")
			}
		}
	}
	return "ok " + strings.Join(out, " ") + " | " + dump()
}

func init() {
	props["C04"] = runC04
	replayers["c04.tok1"] = func(c *Ctx, a []string) string {
		t, err := type1.UnmarshalPrivateToken(unhx(a[0]))
		if err != nil {
			return "err"
		}
		return fmtToken(t)
	}
	replayers["c04.tok2"] = func(c *Ctx, a []string) string {
		t, err := type2.UnmarshalToken(unhx(a[0]))
		if err != nil {
			return "err"
		}
		return fmtToken(t)
	}
	replayers["c04.tok3"] = func(c *Ctx, a []string) string {
		t, err := type3.UnmarshalToken(unhx(a[0]))
		if err != nil {
			return "err"
		}
		return fmtToken(t)
	}
	replayers["c04.tok5"] = func(c *Ctx, a []string) string {
		t, err := type5.UnmarshalBatchedPrivateToken(unhx(a[0]))
		if err != nil {
			return "err"
		}
		return fmtToken(t)
	}
	replayers["c04.tokm"] = func(c *Ctx, a []string) string {
		ty, _ := strconv.ParseUint(a[0], 10, 16)
		t := tokens.Token{TokenType: uint16(ty), Nonce: unhx(a[1]), Context: unhx(a[2]), KeyID: unhx(a[3]), Authenticator: unhx(a[4])}
		return "ok " + hxv(t.Marshal()) + " " + hxv(t.AuthenticatorInput())
	}
	replayers["c04.chal"] = func(c *Ctx, a []string) string {
		ch, err := tokens.UnmarshalTokenChallenge(unhx(a[0]))
		if err != nil {
			return "err"
		}
		var os [][]byte
		for _, o := range ch.OriginInfo {
			os = append(os, []byte(o))
		}
		return fmt.Sprintf("ok %d %s %s %s m=%s", ch.TokenType, hxv([]byte(ch.IssuerName)), hxv(ch.RedemptionNonce), hxList(os), hxv(ch.Marshal()))
	}
	replayers["c04.chalm"] = func(c *Ctx, a []string) string {
		ty, _ := strconv.ParseUint(a[0], 10, 16)
		var os []string
		for _, o := range unhxList(a[3]) {
			os = append(os, string(o))
		}
		ch := tokens.TokenChallenge{TokenType: uint16(ty), IssuerName: string(unhx(a[1])), RedemptionNonce: unhx(a[2]), OriginInfo: os}
		return "ok " + hxv(ch.Marshal())
	}
	replayers["c04.req1"] = func(c *Ctx, a []string) string {
		r := &type1.BasicPrivateTokenRequest{}
		if !r.Unmarshal(unhx(a[0])) {
			return "err"
		}
		return fmt.Sprintf("ok %d %s m=%s", r.TokenKeyID, hxv(r.BlindedReq), hxv(r.Marshal()))
	}
	replayers["c04.req2"] = func(c *Ctx, a []string) string {
		r := &type2.BasicPublicTokenRequest{}
		if !r.Unmarshal(unhx(a[0])) {
			return "err"
		}
		return fmt.Sprintf("ok %d %s m=%s", r.TokenKeyID, hxv(r.BlindedReq), hxv(r.Marshal()))
	}
	replayers["c04.req3"] = func(c *Ctx, a []string) string {
		r := &type3.RateLimitedTokenRequest{}
		if !r.Unmarshal(unhx(a[0])) {
			return "err"
		}
		return fmt.Sprintf("ok %s %s %s %s m=%s", hxv(r.RequestKey), hxv(r.NameKeyID), hxv(r.EncryptedTokenRequest), hxv(r.Signature), hxv(r.Marshal()))
	}
	replayers["c04.inner"] = func(c *Ctx, a []string) string {
		r := &type3.InnerTokenRequest{}
		if !r.Unmarshal(unhx(a[0])) {
			return "err"
		}
		k, m, o := r.VerifFields()
		return fmt.Sprintf("ok %d %s %s m=%s", k, hxv(m), hxv(o), hxv(r.Marshal()))
	}
	replayers["c04.req5"] = func(c *Ctx, a []string) string {
		r := &type5.BatchedPrivateTokenRequest{}
		if !r.Unmarshal(unhx(a[0])) {
			return "err"
		}
		return fmt.Sprintf("ok %d %s m=%s", r.TokenKeyID, hxList(r.BlindedReq), hxv(r.Marshal()))
	}
	replayers["c04.req1m"] = func(c *Ctx, a []string) string {
		r := &type1.BasicPrivateTokenRequest{TokenKeyID: u8arg(a[0]), BlindedReq: unhx(a[1])}
		return "ok " + hxv(r.Marshal())
	}
	replayers["c04.req2m"] = func(c *Ctx, a []string) string {
		r := &type2.BasicPublicTokenRequest{TokenKeyID: u8arg(a[0]), BlindedReq: unhx(a[1])}
		return "ok " + hxv(r.Marshal())
	}
	replayers["c04.req3m"] = func(c *Ctx, a []string) string {
		r := &type3.RateLimitedTokenRequest{RequestKey: unhx(a[0]), NameKeyID: unhx(a[1]), EncryptedTokenRequest: unhx(a[2]), Signature: unhx(a[3])}
		return "ok " + hxv(r.Marshal())
	}
	replayers["c04.innerm"] = func(c *Ctx, a []string) string {
		r := type3.VerifNewInnerTokenRequest(u8arg(a[0]), unhx(a[1]), unhx(a[2]))
		return "ok " + hxv(r.Marshal())
	}
	replayers["c04.req5m"] = func(c *Ctx, a []string) string {
		r := &type5.BatchedPrivateTokenRequest{TokenKeyID: u8arg(a[0]), BlindedReq: unhxList(a[1])}
		return "ok " + hxv(r.Marshal())
	}
	replayers["c04.batch"] = func(c *Ctx, a []string) string {
		r := &batched.BatchedTokenRequest{}
		if !r.Unmarshal(unhx(a[0])) {
			return "err"
		}
		var ss []string
		for _, q := range r.VerifRequests() {
			ss = append(ss, fmtReqWD(q))
		}
		return "ok " + strings.Join(ss, ",") + " m=" + hxv(r.Marshal())
	}
	replayers["c04.batchm"] = func(c *Ctx, a []string) string {
		var reqs []tokens.TokenRequestWithDetails
		for _, s := range strings.Split(a[0], ",") {
			reqs = append(reqs, parseReqWD(s))
		}
		r, err := batched.NewBasicClient().CreateTokenRequest(reqs)
		if err != nil {
			return "err"
		}
		return "ok " + hxv(r.Marshal())
	}
	replayers["c04.batchresp"] = func(c *Ctx, a []string) string {
		rs, err := batched.UnmarshalBatchedTokenResponses(unhx(a[0]))
		if err != nil {
			return "err"
		}
		return "ok " + hxList(rs)
	}
	replayers["c04.encap"] = func(c *Ctx, a []string) string {
		k, err := type3.UnmarshalEncapKey(unhx(a[0]))
		if err != nil {
			return "err"
		}
		return "ok m=" + hxv(k.Marshal())
	}
	// object histories
	replayers["c04.obj1"] = func(c *Ctx, a []string) string {
		r := &type1.BasicPrivateTokenRequest{}
		return objOps(a, r.Marshal, r.Unmarshal, func() string { return fmt.Sprintf("%d %s", r.TokenKeyID, hxv(r.BlindedReq)) })
	}
	replayers["c04.obj2"] = func(c *Ctx, a []string) string {
		r := &type2.BasicPublicTokenRequest{}
		return objOps(a, r.Marshal, r.Unmarshal, func() string { return fmt.Sprintf("%d %s", r.TokenKeyID, hxv(r.BlindedReq)) })
	}
	replayers["c04.obj3"] = func(c *Ctx, a []string) string {
		r := &type3.RateLimitedTokenRequest{}
		return objOps(a, r.Marshal, r.Unmarshal, func() string {
			return fmt.Sprintf("%s %s %s %s", hxv(r.RequestKey), hxv(r.NameKeyID), hxv(r.EncryptedTokenRequest), hxv(r.Signature))
		})
	}
	replayers["c04.obj5"] = func(c *Ctx, a []string) string {
		r := &type5.BatchedPrivateTokenRequest{}
		return objOps(a, r.Marshal, r.Unmarshal, func() string { return fmt.Sprintf("%d %s", r.TokenKeyID, hxList(r.BlindedReq)) })
	}
	replayers["c04.objB"] = func(c *Ctx, a []string) string {
		r := &batched.BatchedTokenRequest{}
		// (Marshal has a value receiver: a method value would bind a copy of the object as it is now)
		return objOps(a, func() []byte { return r.Marshal() }, r.Unmarshal, func() string {
			var ss []string
			for _, q := range r.VerifRequests() {
				ss = append(ss, fmtReqWD(q))
			}
			return strings.Join(ss, ",")
		})
	}
	replayers["c04.objI"] = func(c *Ctx, a []string) string {
		r := &type3.InnerTokenRequest{}
		return objOps(a, r.Marshal, r.Unmarshal, func() string {
			k, m, o := r.VerifFields()
			return fmt.Sprintf("%d %s %s", k, hxv(m), hxv(o))
		})
	}
}

// mutations of a valid encoding: truncations, extensions, byte tweaks at structural positions
func mutations(r *Rng, b []byte, hot []int, n int) [][]byte {
	var out [][]byte
	cp := func() []byte { return append([]byte{}, b...) }
	for i := 0; i < n; i++ {
		m := cp()
		switch r.IntN(8) {
		case 0:
			m = m[:r.IntN(len(m)+1)]
		case 1:
			m = append(m, r.Bytes(1+r.IntN(4))...)
		case 2:
			if len(hot) > 0 && len(m) > 0 {
				p := hot[r.IntN(len(hot))]
				if p < len(m) {
					m[p] ^= 1 << r.IntN(8)
				}
			}
		case 3:
			if len(hot) > 0 {
				p := hot[r.IntN(len(hot))]
				if p < len(m) {
					m[p] = []byte{0, 1, 2, 3, 5, 0x3f, 0x40, 0x7f, 0x80, 0xbf, 0xc0, 0xff}[r.IntN(12)]
				}
			}
		case 4:
			if len(m) > 0 {
				m[r.IntN(len(m))] ^= 1 << r.IntN(8)
			}
		case 5:
			if len(m) > 1 {
				m = m[:len(m)-1]
			}
		case 6:
			m = append(m, 0)
		case 7:
			if len(m) > 2 {
				k := r.IntN(len(m) - 1)
				m = append(m[:k:k], m[k+1:]...)
			}
		}
		out = append(out, m)
	}
	return out
}

func runC04(c *Ctx) {
	r := NewRng(c.Seed, "c04")
	N := c.Pick(300, 6000)

	eq := func(a, b []byte) bool { return bytes.Equal(a, b) }

	// ---- tokens ----
	type tokDec struct {
		op string
		nk int
		f  func([]byte) (tokens.Token, error)
	}
	tds := []tokDec{{"c04.tok1", 48, type1.UnmarshalPrivateToken}, {"c04.tok2", 256, type2.UnmarshalToken},
		{"c04.tok3", 256, type3.UnmarshalToken}, {"c04.tok5", 64, type5.UnmarshalBatchedPrivateToken}}
	for i := 0; i < N; i++ {
		td := tds[i%4]
		t := tokens.Token{TokenType: uint16(r.IntN(7)), Nonce: r.Bytes(32), Context: r.Bytes(32), KeyID: r.Bytes(32), Authenticator: r.Bytes(td.nk)}
		if r.IntN(5) == 0 {
			t.TokenType = uint16(r.Uint32())
		}
		enc := t.Marshal()
		c.Run("c04.tokm", strconv.Itoa(int(t.TokenType)), hx(t.Nonce), hx(t.Context), hx(t.KeyID), hx(t.Authenticator))
		c.Run(td.op, hx(enc))
		c.Count("token:valid")
		got, err := td.f(enc)
		c.Direct(err == nil && got.TokenType == t.TokenType && eq(got.Nonce, t.Nonce) && eq(got.Context, t.Context) && eq(got.KeyID, t.KeyID) && eq(got.Authenticator, t.Authenticator),
			"token decode(encode t) != t", map[string]any{"op": td.op, "enc": hx(enc)})
		for _, m := range mutations(r, enc, []int{0, 1}, 3) {
			c.Run(td.op, hx(m))
			g, err := td.f(m)
			if err == nil {
				c.Count("token:mut-accepted")
				can := g.Marshal()
				g2, err2 := td.f(can)
				c.Direct(len(can) <= len(m) && err2 == nil && eq(g2.Marshal(), can), "token canonical re-encoding", map[string]any{"op": td.op, "b": hx(m)})
			} else {
				c.Count("token:mut-rejected")
			}
		}
		// non-well-formed field widths through the encoder (AuthenticatorInput is used with arbitrary widths by Verify)
		if i%10 == 0 {
			c.Run("c04.tokm", "1", hx(r.Bytes(r.IntN(40))), hx(r.Bytes(r.IntN(40))), hx(r.Bytes(r.IntN(40))), hx(r.Bytes(r.IntN(60))))
		}
	}

	// ---- challenge ----
	for i := 0; i < N; i++ {
		nOrig := 1 + r.IntN(3)
		if i%5 == 4 {
			// long origin lists, around every power of two a bounded splitter could have picked as its limit (round 6)
			nOrig = []int{4, 7, 8, 9, 15, 16, 17, 18, 31, 32, 33, 63, 64, 65, 100, 127, 128, 129, 255, 256, 257, 1000}[(i/5)%22]
		}
		var os []string
		var osb [][]byte
		for k := 0; k < nOrig; k++ {
			o := r.Bytes(r.IntN(12))
			for j := range o {
				if o[j] == ',' {
					o[j] = 'x'
				}
			}
			os = append(os, string(o))
			osb = append(osb, o)
		}
		issuer := r.Bytes(1 + r.IntN(20))
		nonce := r.Bytes([]int{0, 32, 5, 255}[r.IntN(4)])
		ch := tokens.TokenChallenge{TokenType: uint16(r.IntN(6)), IssuerName: string(issuer), RedemptionNonce: nonce, OriginInfo: os}
		enc := ch.Marshal()
		c.Run("c04.chalm", strconv.Itoa(int(ch.TokenType)), hx(issuer), hx(nonce), hxList(osb))
		c.Run("c04.chal", hx(enc))
		c.Count("challenge:valid")
		got, err := tokens.UnmarshalTokenChallenge(enc)
		c.Direct(err == nil && got.Equals(ch), "challenge decode(encode c) != c", map[string]any{"enc": hx(enc)})
		for _, m := range mutations(r, enc, []int{0, 1, 2, 3, 4 + len(issuer), 5 + len(issuer) + len(nonce), 6 + len(issuer) + len(nonce)}, 4) {
			if r.IntN(3) == 0 && len(m) > 10 {
				m[len(m)-1-r.IntN(5)] = ',' // commas inside the origin list
			}
			c.Run("c04.chal", hx(m))
			g, err := tokens.UnmarshalTokenChallenge(m)
			if err == nil {
				c.Count("challenge:mut-accepted")
				can := g.Marshal()
				g2, err2 := tokens.UnmarshalTokenChallenge(can)
				c.Direct(len(can) <= len(m) && err2 == nil && g2.Equals(g), "challenge canonical re-encoding", map[string]any{"b": hx(m)})
			} else {
				c.Count("challenge:mut-rejected")
			}
		}
	}
	// boundary: 65535/65536-byte issuer names and origin lists through the encoder (BytesOrPanic)
	c.Run("c04.chalm", "2", hx(make([]byte, 65535)), "-", hxList([][]byte{{0x61}}))
	c.Run("c04.chalm", "2", hx(make([]byte, 65536)), "-", hxList([][]byte{{0x61}}))
	c.Run("c04.chalm", "2", "61", hx(make([]byte, 256)), hxList([][]byte{{0x61}}))
	c.Run("c04.chalm", "2", "61", hx(make([]byte, 255)), hxList([][]byte{{0x61}}))

	// ---- basic requests (types 1, 2), inner, type 3, type 5 ----
	type reqKind struct {
		name  string
		mk    func() []byte       // a valid encoding
		dec   func([]byte) []byte // decode with a fresh object; nil if rejected, else its Marshal()
		hot   []int
		fresh func([]byte) []byte // decode, copy the fields into a newly constructed value, Marshal that
	}
	kinds := []reqKind{
		{"req1", func() []byte {
			q := &type1.BasicPrivateTokenRequest{TokenKeyID: byte(r.Uint32()), BlindedReq: r.Bytes(49)}
			c.Run("c04.req1m", strconv.Itoa(int(q.TokenKeyID)), hx(q.BlindedReq))
			return q.Marshal()
		}, func(b []byte) []byte {
			q := &type1.BasicPrivateTokenRequest{}
			if !q.Unmarshal(b) {
				return nil
			}
			return q.Marshal()
		}, []int{0, 1, 2}, func(b []byte) []byte {
			q := &type1.BasicPrivateTokenRequest{}
			if !q.Unmarshal(b) {
				return nil
			}
			return (&type1.BasicPrivateTokenRequest{TokenKeyID: q.TokenKeyID, BlindedReq: append([]byte{}, q.BlindedReq...)}).Marshal()
		}},
		{"req2", func() []byte {
			q := &type2.BasicPublicTokenRequest{TokenKeyID: byte(r.Uint32()), BlindedReq: r.Bytes(256)}
			c.Run("c04.req2m", strconv.Itoa(int(q.TokenKeyID)), hx(q.BlindedReq))
			return q.Marshal()
		}, func(b []byte) []byte {
			q := &type2.BasicPublicTokenRequest{}
			if !q.Unmarshal(b) {
				return nil
			}
			return q.Marshal()
		}, []int{0, 1, 2}, func(b []byte) []byte {
			q := &type2.BasicPublicTokenRequest{}
			if !q.Unmarshal(b) {
				return nil
			}
			return (&type2.BasicPublicTokenRequest{TokenKeyID: q.TokenKeyID, BlindedReq: append([]byte{}, q.BlindedReq...)}).Marshal()
		}},
		{"req3", func() []byte {
			q := &type3.RateLimitedTokenRequest{RequestKey: r.Bytes(49), NameKeyID: r.Bytes(32), EncryptedTokenRequest: r.Bytes(1 + r.IntN(400)), Signature: r.Bytes(96)}
			c.Run("c04.req3m", hx(q.RequestKey), hx(q.NameKeyID), hx(q.EncryptedTokenRequest), hx(q.Signature))
			return q.Marshal()
		}, func(b []byte) []byte {
			q := &type3.RateLimitedTokenRequest{}
			if !q.Unmarshal(b) {
				return nil
			}
			return q.Marshal()
		}, []int{0, 1, 83, 84}, func(b []byte) []byte {
			q := &type3.RateLimitedTokenRequest{}
			if !q.Unmarshal(b) {
				return nil
			}
			return (&type3.RateLimitedTokenRequest{RequestKey: q.RequestKey, NameKeyID: q.NameKeyID, EncryptedTokenRequest: q.EncryptedTokenRequest, Signature: q.Signature}).Marshal()
		}},
		{"inner", func() []byte {
			k, m, o := byte(r.Uint32()), r.Bytes(256), r.Bytes(32*r.IntN(4))
			c.Run("c04.innerm", strconv.Itoa(int(k)), hx(m), hx(o))
			return type3.VerifNewInnerTokenRequest(k, m, o).Marshal()
		}, func(b []byte) []byte {
			q := &type3.InnerTokenRequest{}
			if !q.Unmarshal(b) {
				return nil
			}
			return q.Marshal()
		}, []int{0, 257, 258}, func(b []byte) []byte {
			q := &type3.InnerTokenRequest{}
			if !q.Unmarshal(b) {
				return nil
			}
			k, m, o := q.VerifFields()
			return type3.VerifNewInnerTokenRequest(k, m, o).Marshal()
		}},
		{"req5", func() []byte {
			n := r.IntN(5)
			if r.IntN(10) == 0 {
				n = 2 + r.IntN(3) // 64..  bytes: two-byte varint
			}
			var els [][]byte
			for k := 0; k < n; k++ {
				els = append(els, r.Bytes(32))
			}
			q := &type5.BatchedPrivateTokenRequest{TokenKeyID: byte(r.Uint32()), BlindedReq: els}
			c.Run("c04.req5m", strconv.Itoa(int(q.TokenKeyID)), hxList(els))
			return q.Marshal()
		}, func(b []byte) []byte {
			q := &type5.BatchedPrivateTokenRequest{}
			if !q.Unmarshal(b) {
				return nil
			}
			return q.Marshal()
		}, []int{0, 1, 2, 3, 4}, func(b []byte) []byte {
			q := &type5.BatchedPrivateTokenRequest{}
			if !q.Unmarshal(b) {
				return nil
			}
			return (&type5.BatchedPrivateTokenRequest{TokenKeyID: q.TokenKeyID, BlindedReq: q.BlindedReq}).Marshal()
		}},
	}
	for i := 0; i < N; i++ {
		for _, k := range kinds {
			enc := k.mk()
			c.Run("c04."+k.name, hx(enc))
			c.Count(k.name + ":valid")
			can := k.dec(enc)
			c.Direct(can != nil && eq(can, enc), k.name+" decode(encode v) then Marshal != encoding", map[string]any{"enc": hx(enc)})
			ms := mutations(r, enc, k.hot, 4)
			if k.name == "req5" {
				// non-minimal and oversized varint length prefixes
				body := enc[4:]
				if len(enc) >= 4 && enc[3] < 0x40 {
					ms = append(ms, append(append([]byte{enc[0], enc[1], enc[2]}, nonMinimal(uint64(enc[3]), r)...), body...))
				}
				ms = append(ms, append([]byte{0, 5, 1}, refEnc([]uint64{1 << 30, 1<<62 - 1, 1 << 14, 33, 31}[r.IntN(5)])...))
				ms = append(ms, []byte{0, 5, 1})
			}
			for _, m := range ms {
				c.Run("c04."+k.name, hx(m))
				cm := k.dec(m)
				if cm != nil {
					c.Count(k.name + ":mut-accepted")
					cm2 := k.dec(cm)
					c.Direct(len(cm) <= len(m) && cm2 != nil && eq(cm2, cm), k.name+" canonical re-encoding of an accepted string", map[string]any{"b": hx(m), "canonical": hx(cm)})
					// … and what Marshal returns after Unmarshal is the canonical encoding: the one a newly built value with the same fields has
					c.Direct(eq(cm, k.fresh(m)), k.name+" Marshal after Unmarshal differs from the encoding of a fresh value with the same fields", map[string]any{"b": hx(m), "after_unmarshal": hx(cm), "fresh": hx(k.fresh(m))})
				} else {
					c.Count(k.name + ":mut-rejected")
				}
			}
			// type separation: every other tag is rejected
			if k.name != "inner" && len(enc) > 2 {
				for _, t := range []uint16{0, 1, 2, 3, 5, 4, 0x0100, 0x0201, 0xffff} {
					m := append([]byte{byte(t >> 8), byte(t)}, enc[2:]...)
					if m[0] == enc[0] && m[1] == enc[1] {
						continue
					}
					if i%5 == 0 {
						c.Run("c04."+k.name, hx(m))
					}
					c.Direct(k.dec(m) == nil, k.name+" accepted a message tagged with another type", map[string]any{"b": hx(m)})
				}
			}
		}
	}

	// ---- type separation, every one of the 65535 other tags (decoders only; the model side is the theorem) ----
	sweep := []struct {
		name string
		enc  []byte
		dec  func([]byte) bool
	}{}
	for _, k := range kinds {
		if k.name == "inner" {
			continue
		}
		k := k
		sweep = append(sweep, struct {
			name string
			enc  []byte
			dec  func([]byte) bool
		}{k.name, k.mk(), func(b []byte) bool { return k.dec(b) != nil }})
	}
	// (token decoders read the type without checking it — by design; the clause is about request decoders)
	{
		one, _ := batched.NewBasicClient().CreateTokenRequest([]tokens.TokenRequestWithDetails{&type1.BasicPrivateTokenRequest{TokenKeyID: 7, BlindedReq: r.Bytes(49)}})
		enc := one.Marshal()
		_, n := quicwire.ConsumeVarint(enc)
		// rotate so that the element's tag is in front for the sweep, and back before decoding
		sweep = append(sweep, struct {
			name string
			enc  []byte
			dec  func([]byte) bool
		}{"batch-element", append(append([]byte{}, enc[n:n+2]...), append(append([]byte{}, enc[:n]...), enc[n+2:]...)...), func(b []byte) bool {
			m := append(append(append([]byte{}, b[2:2+n]...), b[:2]...), b[2+n:]...)
			return (&batched.BatchedTokenRequest{}).Unmarshal(m)
		}})
	}
	for _, sw := range sweep {
		if !c.DirectOK(sw.dec(sw.enc), sw.name+": the honest encoding used for the tag sweep is not accepted", map[string]any{"enc": hx(sw.enc)}) {
			continue
		}
		own := uint16(sw.enc[0])<<8 | uint16(sw.enc[1])
		for t := 0; t < 65536; t++ {
			if uint16(t) == own {
				continue
			}
			m := append([]byte{byte(t >> 8), byte(t)}, sw.enc[2:]...)
			if sw.dec(m) {
				c.Direct(false, sw.name+" accepted a message tagged with another type", map[string]any{"tag": t, "b": hx(m)})
			}
		}
		c.hist["tag-sweep:"+sw.name] += 65535
	}

	// ---- object reuse histories ----
	objKinds := []struct{ op, name string }{{"c04.obj1", "req1"}, {"c04.obj2", "req2"}, {"c04.obj3", "req3"}, {"c04.obj5", "req5"}, {"c04.objI", "inner"}, {"c04.objB", "batch"}}
	kindByName := map[string]reqKind{}
	for _, k := range kinds {
		kindByName[k.name] = k
	}
	quiet := *c
	_ = quiet
	for i := 0; i < c.Pick(150, 3000); i++ {
		for _, ok := range objKinds {
			k := kindByName[ok.name]
			if ok.name == "batch" {
				k = reqKind{name: "batch", dec: func(b []byte) []byte {
					q := &batched.BatchedTokenRequest{}
					if !q.Unmarshal(b) {
						return nil
					}
					return q.Marshal()
				}}
			}
			// alphabet: m, u:good A, u:good B, u:bad (truncated / wrong type / partial)
			mk := func() []byte {
				// build a valid encoding without journalling an op
				switch ok.name {
				case "req1":
					return (&type1.BasicPrivateTokenRequest{TokenKeyID: byte(r.Uint32()), BlindedReq: r.Bytes(49)}).Marshal()
				case "req2":
					return (&type2.BasicPublicTokenRequest{TokenKeyID: byte(r.Uint32()), BlindedReq: r.Bytes(256)}).Marshal()
				case "req3":
					return (&type3.RateLimitedTokenRequest{RequestKey: r.Bytes(49), NameKeyID: r.Bytes(32), EncryptedTokenRequest: r.Bytes(1 + r.IntN(60)), Signature: r.Bytes(96)}).Marshal()
				case "inner":
					return type3.VerifNewInnerTokenRequest(byte(r.Uint32()), r.Bytes(256), r.Bytes(32)).Marshal()
				case "batch":
					var reqs []tokens.TokenRequestWithDetails
					for j := 1 + r.IntN(3); j > 0; j-- {
						if r.Bool() {
							reqs = append(reqs, &type1.BasicPrivateTokenRequest{TokenKeyID: byte(r.Uint32()), BlindedReq: r.Bytes(49)})
						} else {
							reqs = append(reqs, &type2.BasicPublicTokenRequest{TokenKeyID: byte(r.Uint32()), BlindedReq: r.Bytes(256)})
						}
					}
					br, _ := batched.NewBasicClient().CreateTokenRequest(reqs)
					return br.Marshal()
				default:
					var els [][]byte
					for j := r.IntN(3); j > 0; j-- {
						els = append(els, r.Bytes(32))
					}
					return (&type5.BatchedPrivateTokenRequest{TokenKeyID: byte(r.Uint32()), BlindedReq: els}).Marshal()
				}
			}
			A, B := mk(), mk()
			bads := [][]byte{A[:len(A)-1], A[:3], append([]byte{0, 9}, A[2:]...), B[:len(B)/2], {}}
			if ok.name == "req3" {
				bads = append(bads, append(append([]byte{}, A...), 0), A[:len(A)-96]) // trailing byte; no signature
			}
			L := 2 + r.IntN(5)
			var ops []string
			for j := 0; j < L; j++ {
				switch r.IntN(5) {
				case 0, 1:
					ops = append(ops, "m")
				case 2:
					ops = append(ops, "u:"+hx(A))
				case 3:
					ops = append(ops, "u:"+hx(B))
				default:
					ops = append(ops, "u:"+hx(bads[r.IntN(len(bads))]))
				}
			}
			ops = append(ops, "m")
			out := c.Run(ok.op, ops...)
			c.Count("obj:" + ok.name)
			// direct oracle: after the last successful unmarshal with no later failed one, the final
			// marshal must be the canonical encoding of those bytes
			last := ""
			for _, o := range ops {
				if strings.HasPrefix(o, "u:") {
					last = o[2:]
				}
			}
			if last != "" {
				if can := k.dec(unhx(last)); can != nil {
					fs := strings.Fields(strings.SplitN(out, " | ", 2)[0])
					fin := fs[len(fs)-1]
					c.Direct(fin == "m="+hxv(can), ok.name+" Marshal after Unmarshal on a reused object is not the canonical encoding of the decoded value",
						map[string]any{"ops": strings.Join(ops, " "), "final": fin, "canonical": hx(can)})
				}
			}
		}
	}
	if !c.Thorough() {
		// exhaustive short histories over {m, u:A, u:B, u:bad} up to length 4 for req1
		A := (&type1.BasicPrivateTokenRequest{TokenKeyID: 1, BlindedReq: bytes.Repeat([]byte{0xa1}, 49)}).Marshal()
		B := (&type1.BasicPrivateTokenRequest{TokenKeyID: 2, BlindedReq: bytes.Repeat([]byte{0xb2}, 49)}).Marshal()
		alpha := []string{"m", "u:" + hx(A), "u:" + hx(B), "u:" + hx(A[:20])}
		var rec func(pre []string, d int)
		rec = func(pre []string, d int) {
			if len(pre) > 0 {
				c.Run("c04.obj1", append(append([]string{}, pre...), "m")...)
			}
			if d == 0 {
				return
			}
			for _, a := range alpha {
				rec(append(pre, a), d-1)
			}
		}
		rec(nil, 4)
		c.notes["obj1_histories_exhaustive_len<=4"] = true
	}

	// ---- generic batch request ----
	for i := 0; i < N; i++ {
		n := 1 + r.IntN(4)
		var reqs []tokens.TokenRequestWithDetails
		var ss []string
		for k := 0; k < n; k++ {
			var q tokens.TokenRequestWithDetails
			if r.Bool() {
				q = &type1.BasicPrivateTokenRequest{TokenKeyID: byte(r.Uint32()), BlindedReq: r.Bytes(49)}
			} else {
				q = &type2.BasicPublicTokenRequest{TokenKeyID: byte(r.Uint32()), BlindedReq: r.Bytes(256)}
			}
			reqs = append(reqs, q)
			ss = append(ss, fmtReqWD(q))
		}
		c.Run("c04.batchm", strings.Join(ss, ","))
		br, _ := batched.NewBasicClient().CreateTokenRequest(reqs)
		enc := br.Marshal()
		c.Run("c04.batch", hx(enc))
		c.Count(fmt.Sprintf("batch:valid/n=%d", n))
		dec := func(b []byte) ([]string, []byte) {
			q := &batched.BatchedTokenRequest{}
			if !q.Unmarshal(b) {
				return nil, nil
			}
			var o []string
			for _, x := range q.VerifRequests() {
				o = append(o, fmtReqWD(x))
			}
			return o, q.Marshal()
		}
		got, can := dec(enc)
		c.Direct(can != nil && strings.Join(got, ",") == strings.Join(ss, ",") && eq(can, enc), "batch decode(encode rs) != rs", map[string]any{"enc": hx(enc)})
		vl := len(refEnc(uint64(len(enc)))) // approx prefix length
		hot := []int{0, 1, vl, vl + 1, vl + 2, vl + 52, vl + 53}
		ms := mutations(r, enc, hot, 5)
		// element of a type the batch does not carry; declared length variants
		pl := len(enc) - len(bytes.TrimPrefix(enc, refEnc(uint64(len(enc)-vl))))
		if pl > 0 {
			body := enc[pl:]
			for _, t := range []uint16{0, 3, 5, 0x0101} {
				m := append([]byte{}, enc...)
				m[pl], m[pl+1] = byte(t>>8), byte(t)
				ms = append(ms, m)
			}
			ms = append(ms, append(nonMinimal(uint64(len(body)), r), body...))
			ms = append(ms, append(refEnc(uint64(len(body)+1)), body...))
			ms = append(ms, append(refEnc(uint64(len(body)-1)), body...))
			ms = append(ms, append(refEnc(uint64(len(body))), append(append([]byte{}, body...), 1, 2, 3)...))
		}
		ms = append(ms, []byte{0, 0, 0, 0}, []byte{0xc0, 0, 0, 0}, []byte{0}, refEnc(1<<62-1), append(refEnc(1<<30), 0, 1))
		for _, m := range ms {
			c.Run("c04.batch", hx(m))
			g, cm := dec(m)
			if cm != nil {
				c.Count("batch:mut-accepted")
				g2, cm2 := dec(cm)
				c.Direct(len(cm) <= len(m) && cm2 != nil && strings.Join(g, ",") == strings.Join(g2, ","), "batch canonical re-encoding", map[string]any{"b": hx(m)})
				for _, e := range g {
					c.Direct(strings.HasPrefix(e, "1:") || strings.HasPrefix(e, "2:"), "batch carries a request of another type", map[string]any{"b": hx(m)})
				}
			} else {
				c.Count("batch:mut-rejected")
			}
		}
	}

	// large batches: the list length needs the 4-byte varint form (> 16383 bytes)
	for _, n := range []int{64, 70} {
		var reqs []tokens.TokenRequestWithDetails
		var ss []string
		for k := 0; k < n; k++ {
			q := &type2.BasicPublicTokenRequest{TokenKeyID: byte(k), BlindedReq: r.Bytes(256)}
			reqs = append(reqs, q)
			ss = append(ss, fmtReqWD(q))
		}
		c.Run("c04.batchm", strings.Join(ss, ","))
		br, _ := batched.NewBasicClient().CreateTokenRequest(reqs)
		enc := br.Marshal()
		c.Run("c04.batch", hx(enc))
		c.Count("batch:valid/large")
		q := &batched.BatchedTokenRequest{}
		c.Direct(q.Unmarshal(enc) && len(q.VerifRequests()) == n && eq(q.Marshal(), enc), "large batch decode(encode rs) != rs", map[string]any{"n": n})
		c.Run("c04.batch", hx(enc[:len(enc)-1]))
		c.Run("c04.batch", hx(append(append([]byte{}, enc...), 7)))
	}
	// type-5 requests whose element list needs the 4-byte varint form
	for _, n := range []int{511, 512, 513, 600} {
		var els [][]byte
		for k := 0; k < n; k++ {
			els = append(els, r.Bytes(32))
		}
		q := &type5.BatchedPrivateTokenRequest{TokenKeyID: 9, BlindedReq: els}
		c.Run("c04.req5m", "9", hxList(els))
		enc := q.Marshal()
		c.Run("c04.req5", hx(enc))
		c.Count("req5:valid/large")
		q2 := &type5.BatchedPrivateTokenRequest{}
		c.Direct(q2.Unmarshal(enc) && len(q2.BlindedReq) == n && eq(q2.Marshal(), enc), "large type-5 request decode(encode v) != v", map[string]any{"n": n})
	}

	// ---- generic batch response list ----
	for i := 0; i < N; i++ {
		n := r.IntN(5)
		var body []byte
		var want [][]byte
		for k := 0; k < n; k++ {
			switch r.IntN(3) {
			case 0:
				body = append(body, 0)
				want = append(want, []byte{})
			case 1:
				x := r.Bytes(145)
				body = append(append(body, 1, 0, 1), x...)
				want = append(want, x)
			default:
				x := r.Bytes(256)
				body = append(append(body, 1, 0, 2), x...)
				want = append(want, x)
			}
		}
		enc := append(refEnc(uint64(len(body))), body...)
		c.Run("c04.batchresp", hx(enc))
		c.Count(fmt.Sprintf("batchresp:valid/n=%d", n))
		got, err := batched.UnmarshalBatchedTokenResponses(enc)
		same := err == nil && len(got) == len(want)
		for k := range want {
			same = same && eq(got[k], want[k])
		}
		c.Direct(same, "batch response list decode(encode es) != es", map[string]any{"enc": hx(enc)})
		pl := len(enc) - len(body)
		ms := mutations(r, enc, []int{0, pl, pl + 1, pl + 2, pl + 3}, 4)
		ms = append(ms, append(nonMinimal(uint64(len(body)), r), body...), append(refEnc(uint64(len(body)+1)), body...),
			[]byte{5, 0}, []byte{0xc0}, refEnc(1<<62-1), append(refEnc(uint64(len(body))), append(append([]byte{}, body...), 9)...),
			[]byte{4, 1, 0, 3, 7}, []byte{1, 2})
		for _, m := range ms {
			c.Run("c04.batchresp", hx(m))
			if _, err := batched.UnmarshalBatchedTokenResponses(m); err == nil {
				c.Count("batchresp:mut-accepted")
			} else {
				c.Count("batchresp:mut-rejected")
			}
		}
	}

	// ---- EncapKey ----
	for i := 0; i < N; i++ {
		seed := r.Bytes(32)
		pk, _ := type3.CreatePrivateEncapKeyFromSeed(seed)
		enc := pk.Public().Marshal()
		encapOp := func(b []byte) {
			ok := 0
			if len(b) >= 3 {
				kem := uint16(b[1])<<8 | uint16(b[2])
				suite, err := hpke.AssembleCipherSuite(hpke.KEMID(kem), hpke.KDF_HKDF_SHA256, hpke.AEAD_AESGCM128)
				if err == nil && len(b) >= 3+suite.KEM.PublicKeySize() && pkOk(kem, b[3:3+suite.KEM.PublicKeySize()]) {
					ok = 1
				}
			}
			c.Run("c04.encap", hx(b), strconv.Itoa(ok))
		}
		encapOp(enc)
		c.Count("encap:valid")
		g, err := type3.UnmarshalEncapKey(enc)
		c.Direct(err == nil && eq(g.Marshal(), enc), "EncapKey decode(encode k) != k", map[string]any{"enc": hx(enc)})
		ms := mutations(r, enc, []int{0, 1, 2, 35, 36, 37, 38}, 4)
		// other KEMs with well-sized keys
		if i%4 == 0 {
			x, y := elliptic.P256().ScalarBaseMult(r.Bytes(32))
			p256 := elliptic.Marshal(elliptic.P256(), x, y)
			ms = append(ms, append(append([]byte{7, 0, 0x10}, p256...), 0, 1, 0, 1))
			bad := append([]byte{}, p256...)
			bad[40] ^= 1
			ms = append(ms, append(append([]byte{7, 0, 0x10}, bad...), 0, 1, 0, 1))
			ms = append(ms, append(append([]byte{7, 0, 0x21}, r.Bytes(56)...), 0, 3, 0, 3))
			ms = append(ms, append(append([]byte{7, 0, 0x21}, r.Bytes(56)...), 0, 3, 0xff, 0xff))
			ms = append(ms, append(append([]byte{7, 0, 0x11}, r.Bytes(97)...), 0, 1, 0, 1))
		}
		for _, m := range ms {
			encapOp(m)
			g, err := type3.UnmarshalEncapKey(m)
			if err == nil {
				c.Count("encap:mut-accepted")
				can := g.Marshal()
				g2, err2 := type3.UnmarshalEncapKey(can)
				c.Direct(len(can) <= len(m) && eq(can, m[:len(can)]) && err2 == nil && eq(g2.Marshal(), can), "EncapKey canonical re-encoding", map[string]any{"b": hx(m)})
			} else {
				c.Count("encap:mut-rejected")
			}
		}
	}
}
