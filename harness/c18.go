package main

import (
	"bytes"
	"crypto/rsa"
	"crypto/x509"
	"fmt"
	"math/big"
	"strings"

	"github.com/cloudflare/circl/oprf"
	"github.com/cloudflare/pat-go/tokens/type1"
	"github.com/cloudflare/pat-go/tokens/type2"
	"github.com/cloudflare/pat-go/tokens/type3"
	"github.com/cloudflare/pat-go/tokens/type5"
	"github.com/cloudflare/pat-go/util"
)

func init() {
	props["C18"] = runC18
	replayers["c18.pss"] = func(c *Ctx, a []string) string {
		b, err := util.MarshalTokenKeyPSSOID(&rsa.PublicKey{N: parseBig(a[0]), E: int(parseBig(a[1]).Int64())})
		if err != nil {
			return "err"
		}
		return "ok " + hxv(b)
	}
	replayers["c18.legacy"] = func(c *Ctx, a []string) string {
		b, err := util.MarshalTokenKey(&rsa.PublicKey{N: parseBig(a[0]), E: int(parseBig(a[1]).Int64())}, true)
		if err != nil {
			return "err"
		}
		return "ok " + hxv(b)
	}
	replayers["c18.unmarshal"] = func(c *Ctx, a []string) string {
		k, err := util.UnmarshalTokenKey(unhx(a[0]))
		if err != nil {
			return "err"
		}
		return "ok " + bigHex(k.N) + " " + bigHex(big.NewInt(int64(k.E)))
	}
	// c18.rsaid <n> <e> <keyidx>: type-2 and type-3 issuers' key id; the byte a type-2 request carries
	replayers["c18.rsaid"] = func(c *Ctx, a []string) string {
		var ki int
		fmt.Sscanf(a[2], "%d", &ki)
		key := rsaKey(ki)
		if c18i2[ki] == nil {
			c18i2[ki], c18i3[ki] = type2.NewBasicPublicIssuer(key), type3.NewRateLimitedIssuer(key)
		}
		i2, i3 := c18i2[ki], c18i3[ki]
		// a caller that writes into the id it was given must not change what the issuer reports afterwards
		scribble(i2.TokenKeyID())
		scribble(i3.TokenKeyID())
		if !bytes.Equal(i2.TokenKeyID(), i3.TokenKeyID()) {
			return "err-type2-type3-differ"
		}
		st, err := type2.NewBasicPublicClient().CreateTokenRequest([]byte("c"), bytes.Repeat([]byte{1}, 32), i2.TokenKeyID(), i2.TokenKey())
		if err != nil {
			return "err"
		}
		return fmt.Sprintf("ok %s %d", hxv(i2.TokenKeyID()), st.Request().TokenKeyID)
	}
	// c18.voprfid <pk> <ty> <keyseed>
	replayers["c18.voprfid"] = func(c *Ctx, a []string) string {
		seed := unhx(a[2])
		if a[1] == "1" {
			iss := type1.NewBasicPrivateIssuer(oprfKey(oprf.SuiteP384, seed))
			scribble(iss.TokenKeyID())
			st, err := type1.NewBasicPrivateClient().CreateTokenRequest([]byte("c"), bytes.Repeat([]byte{1}, 32), iss.TokenKeyID(), iss.TokenKey())
			if err != nil {
				return "err"
			}
			return fmt.Sprintf("ok %s %d", hxv(iss.TokenKeyID()), st.Request().TokenKeyID)
		}
		iss := type5.NewBatchedPrivateIssuer(oprfKey(oprf.SuiteRistretto255, seed))
		scribble(iss.TokenKeyID())
		st, err := type5.NewBatchedPrivateClient().CreateTokenRequest([]byte("c"), [][]byte{bytes.Repeat([]byte{1}, 32)}, iss.TokenKeyID(), iss.TokenKey())
		if err != nil {
			return "err"
		}
		return fmt.Sprintf("ok %s %d", hxv(iss.TokenKeyID()), st.Request().TokenKeyID)
	}
	// c18.nameid <id> <kem> <pk> <kdf> <aead> <seed>: EncapKey encoding and the name key id a request carries
	replayers["c18.nameid"] = func(c *Ctx, a []string) string {
		pk, err := type3.CreatePrivateEncapKeyFromSeed(unhx(a[5]))
		if err != nil {
			return "err"
		}
		enc := pk.Public().Marshal()
		reseedRand(c.Seed, "c18.nameid")
		nk, _, _, err := type3.VerifEncryptOriginTokenRequest(pk.Public(), 1, make([]byte, 256), make([]byte, 49), "o")
		if err != nil {
			return "err"
		}
		return "ok " + hxv(enc) + " " + hxv(nk)
	}
	// c18.namekey <serialized name key>: the key a client decodes from configuration; its serialization and
	// the name key id the client's request carries
	replayers["c18.namekey"] = func(c *Ctx, a []string) string {
		in := unhx(a[0])
		k, err := type3.UnmarshalEncapKey(in)
		if err != nil {
			return "err"
		}
		// the configuration buffer the key was parsed from is recycled by its owner
		for i := range in {
			in[i] ^= 0x3c
		}
		reseedRand(c.Seed, "c18.namekey")
		nk, _, _, err := type3.VerifEncryptOriginTokenRequest(k, 1, make([]byte, 256), make([]byte, 49), "o")
		if err != nil {
			return "err-encrypt"
		}
		return "ok " + hxv(k.Marshal()) + " " + hxv(nk)
	}
}

var c18i2 = map[int]*type2.BasicPublicIssuer{}
var c18i3 = map[int]*type3.RateLimitedIssuer{}

func scribble(b []byte) {
	for i := range b {
		b[i] ^= 0xa5
	}
	_ = append(b[:0], 0xee)
}

func runC18(c *Ctx) {
	r := NewRng(c.Seed, "c18")
	n := c.Pick(300, 10000)
	exps := []int64{1, 3, 65537, 1<<31 - 1, 1 << 31, 1 << 40, 1 << 62, 127, 128, 255, 256, 0}
	for i := 0; i < n; i++ {
		// moduli of every byte length 1..520 and bit patterns
		l := 1 + i%520
		nb := r.Bytes(l)
		switch i % 4 {
		case 0:
			nb[0] |= 0x80 // top bit set: leading 00 in DER
		case 1:
			nb[0] &= 0x7f
		case 2:
			nb[0] = 0 // leading zero bytes in the source value
		}
		N := new(big.Int).SetBytes(nb)
		e := exps[i%len(exps)]
		if i%7 == 0 {
			e = int64(r.Uint64() >> (1 + uint(r.IntN(62))))
		}
		pk := &rsa.PublicKey{N: N, E: int(e)}
		o1 := c.Run("c18.pss", bigHex(N), bigHex(big.NewInt(e)))
		o2 := c.Run("c18.legacy", bigHex(N), bigHex(big.NewInt(e)))
		c.Count(fmt.Sprintf("key:modlen%%4=%d", i%4))
		in := map[string]any{"n": bigHex(N), "e": e}
		for _, o := range []string{o1, o2} {
			if !c.DirectOK(strings.HasPrefix(o, "ok "), "token key does not encode", in) {
				continue
			}
			enc := unhx(o[3:])
			c.Run("c18.unmarshal", hx(enc))
			got, err := util.UnmarshalTokenKey(enc)
			c.Direct(err == nil && got.N.Cmp(N) == 0 && got.E == int(e), "decoding does not invert encoding", in)
		}
		// the RSASSA-PSS form carries the AlgorithmIdentifier prescribed for Privacy Pass token keys
		if strings.HasPrefix(o1, "ok ") {
			pss := unhx(o1[3:])
			algID := unhx("303d06092a864886f70d01010a3030a00d300b0609608648016503040202a11a301806092a864886f70d010108300b0609608648016503040202a203020130")
			c.Direct(bytes.Contains(pss[:min(len(pss), 80)], algID), "RSASSA-PSS form is not the prescribed DER (SHA-384, MGF1-SHA-384, salt length 48)", in)
		}
		// the legacy form is the standard library's PKIX encoding and parses there
		if o2 != "err" && e > 0 && N.Sign() > 0 {
			leg := unhx(o2[3:])
			std, err := x509.MarshalPKIXPublicKey(pk)
			c.Direct(err == nil && bytes.Equal(std, leg), "legacy form differs from x509.MarshalPKIXPublicKey", in)
		}
		// mutated encodings through the tolerant reader
		if i%5 == 0 && strings.HasPrefix(o1, "ok ") {
			for _, m := range mutations(r, unhx(o1[3:]), []int{0, 1, 2, 3, 4, 5, 66, 67, 68, 69, 70, 71, 72, 73}, 6) {
				c.Run("c18.unmarshal", hx(m))
			}
		}
	}
	// moduli whose DER needs four-byte lengths (a fixed-size output buffer would truncate): direct oracles only
	for _, l := range []int{65000, 65440, 65460, 65536, 70000} {
		if l > 65460 && !c.Thorough() {
			continue
		}
		nb := r.Bytes(l)
		nb[0] |= 0x80
		N := new(big.Int).SetBytes(nb)
		pk := &rsa.PublicKey{N: N, E: 65537}
		out := c.Op(fmt.Sprintf("c03.probe c18.huge-modulus %d", l), func() string {
			for _, legacy := range []bool{false, true} {
				var enc []byte
				var err error
				if legacy {
					enc, err = util.MarshalTokenKey(pk, true)
				} else {
					enc, err = util.MarshalTokenKeyPSSOID(pk)
				}
				if err != nil {
					continue // refusing is fine; a wrong encoding is not
				}
				got, err := util.UnmarshalTokenKey(enc)
				if err != nil || got.N.Cmp(N) != 0 || got.E != 65537 {
					return fmt.Sprintf("legacy=%v: the encoding of a %d-byte modulus (%d bytes) does not decode to the key", legacy, l, len(enc))
				}
				if legacy {
					if std, err := x509.MarshalPKIXPublicKey(pk); err == nil && !bytes.Equal(std, enc) {
						return "legacy form differs from x509.MarshalPKIXPublicKey"
					}
				}
			}
			return "-"
		})
		c.Count("key:huge-modulus")
		c.Direct(out == "-", "token key with a very long modulus: "+out, map[string]any{"modulus_bytes": l})
	}
	// decoded keys are values of their own: a key decoded earlier keeps its modulus while others are decoded
	{
		var held []*rsa.PublicKey
		var want []*big.Int
		for k := 0; k < 6; k++ {
			nb := r.Bytes(64 + 32*k)
			nb[0] |= 0x80
			N := new(big.Int).SetBytes(nb)
			enc, err := util.MarshalTokenKeyPSSOID(&rsa.PublicKey{N: N, E: 65537})
			must(err)
			if k%2 == 1 {
				enc, err = util.MarshalTokenKey(&rsa.PublicKey{N: N, E: 65537}, true)
				must(err)
			}
			got, err := util.UnmarshalTokenKey(enc)
			must(err)
			held = append(held, got)
			want = append(want, N)
		}
		ok := true
		for k := range held {
			ok = ok && held[k].N.Cmp(want[k]) == 0 && held[k].E == 65537
		}
		c.Count("key:held-across-decodes")
		c.Direct(ok, "a token key decoded earlier changed when later keys were decoded", nil)
	}
	// key ids
	for ki := 0; ki < 4; ki++ {
		key := rsaKey(ki)
		out := c.Run("c18.rsaid", bigHex(key.N), bigHex(big.NewInt(int64(key.E))), fmt.Sprint(ki))
		c.Count("id:rsa")
		spki, _ := util.MarshalTokenKeyPSSOID(&key.PublicKey)
		id := sha256b(spki)
		c.Direct(out == fmt.Sprintf("ok %s %d", hxv(id), id[31]), "type-2/3 key id is not SHA-256 of the serialized key, or the request does not carry its last byte", map[string]any{"impl": out})
	}
	for i := 0; i < c.Pick(25, 500); i++ {
		seed := []byte(fmt.Sprintf("c18-key-%d", i))
		pk1, _ := oprfKey(oprf.SuiteP384, seed).Public().MarshalBinary()
		o := c.Run("c18.voprfid", hx(pk1), "1", hx(seed))
		id1 := sha256b(pk1)
		c.Direct(o == fmt.Sprintf("ok %s %d", hxv(id1), id1[31]), "type-1 key id is not SHA-256 of the serialized key, or the request does not carry its last byte", map[string]any{"impl": o})
		pk5, _ := oprfKey(oprf.SuiteRistretto255, seed).Public().MarshalBinary()
		o = c.Run("c18.voprfid", hx(pk5), "5", hx(seed))
		id5 := sha256b(pk5)
		c.Direct(o == fmt.Sprintf("ok %s %d", hxv(id5), id5[31]), "type-5 key id is not SHA-256 of the serialized key, or the request does not carry its last byte", map[string]any{"impl": o})
		c.Count("id:voprf")
		s := r.Bytes(32)
		ek, _ := type3.CreatePrivateEncapKeyFromSeed(s)
		enc := ek.Public().Marshal()
		o = c.Run("c18.nameid", "1", "32", hx(enc[3:35]), "1", "1", hx(s))
		c.Direct(o == "ok "+hxv(enc)+" "+hxv(sha256b(enc)), "type-3 name key id is not SHA-256 of the serialized name key", map[string]any{"impl": o})
		c.Count("id:name")
		// every HPKE suite the name key may announce: the id is over the key as it was published
		for _, kdf := range []byte{1, 2, 3} {
			for _, aead := range []byte{1, 2, 3} {
				if !c.Thorough() && (int(kdf)*3+int(aead)+i)%3 != 0 {
					continue
				}
				pub := append(append([]byte{byte(i), 0, 0x20}, enc[3:35]...), 0, kdf, 0, aead)
				o = c.Run("c18.namekey", hx(pub))
				c.Direct(o == "ok "+hxv(pub)+" "+hxv(sha256b(pub)), "type-3 name key id is not SHA-256 of the name key as serialized by its publisher", map[string]any{"key": hx(pub), "impl": o})
				c.Count(fmt.Sprintf("id:name:kdf%d-aead%d", kdf, aead))
				// the same key followed by other configuration bytes: the key, and its id, are those of the key alone
				o = c.Run("c18.namekey", hx(append(append([]byte{}, pub...), r.Bytes(1+r.IntN(9))...)))
				c.Direct(o == "ok "+hxv(pub)+" "+hxv(sha256b(pub)), "name key parsed from a longer buffer: its serialization or id is not that of the key alone", map[string]any{"key": hx(pub), "impl": o})
			}
		}
	}
}
