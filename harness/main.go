// Command harness drives the real pat-go code for the correspondence check.
//
// For one property it generates operations (one per line, hex arguments, oracle columns
// computed by calling dependencies directly), executes each against the implementation
// in-process under recover, and writes
//
//	<out>/ops.txt    the operation lines (what the Lean driver consumes)
//	<out>/impl.txt   one canonical outcome line per operation
//	<out>/direct.jsonl  failures of the direct property oracles (no model involved)
//	<out>/stats.json input distribution and counters
//
// Every random choice derives from VERIF_SEED through one ChaCha8 stream per named
// sub-stream; crypto/rand.Reader is replaced by such a stream too.
package main

import (
	"bufio"
	"encoding/json"
	"flag"
	"fmt"
	"os"
	"path/filepath"
	"runtime/debug"
	"sort"
	"strings"
)

type Ctx struct {
	Prop          string
	Tier          string
	Seed          uint64
	Out           string
	ops           *bufio.Writer
	impl          *bufio.Writer
	direct        *bufio.Writer
	opsF          *os.File
	implF         *os.File
	nOps          int
	hist          map[string]int
	nDirectFail   int
	nDirectChecks int
	samples       []string
	notes         map[string]any
	lastOp        string
	// generic history check (see rerunEarlier)
	recent     []pastOp
	sinceRerun int
	rerunEvery int
	rerunCount int
	noRerun    bool
}

// Try runs f (a call into the implementation made by a direct oracle) and reports whether it panicked.
func Try(f func()) (panicked bool) {
	defer func() {
		if r := recover(); r != nil {
			panicked = true
		}
	}()
	f()
	return false
}

func (c *Ctx) Thorough() bool { return c.Tier == "thorough" }

// Pick returns q in quick tier, t in thorough tier.
func (c *Ctx) Pick(q, t int) int {
	if c.Thorough() {
		return t
	}
	return q
}

// Op journals one operation line, runs f under recover and journals its outcome.
// The op line is flushed before f runs, so that a crash of the process (fatal error,
// out of memory, timeout) is attributable to the last journalled op.
func (c *Ctx) Op(line string, f func() string) string {
	c.ops.WriteString(line)
	c.ops.WriteByte('\n')
	c.ops.Flush()
	c.lastOp = line
	if len(c.lastOp) > 2000 {
		c.lastOp = c.lastOp[:2000]
	}
	out := protect(f)
	c.impl.WriteString(out)
	c.impl.WriteByte('\n')
	c.impl.Flush()
	c.nOps++
	if out == "panic" && c.Prop == "C03" && !strings.HasPrefix(line, "c03.probe") {
		// for C03 a panic in any compared operation is itself a failing input
		c.Direct(false, "panic on peer-supplied bytes", map[string]any{"op": c.lastOp, "panic": firstLines(lastPanic, 10)})
	}
	if len(c.samples) < 12 && (c.nOps%97 == 1 || c.nOps < 4) {
		s := line + "  =>  " + out
		if len(s) > 400 {
			s = s[:400] + "…"
		}
		c.samples = append(c.samples, s)
	}
	return out
}

// Count records a branch/kind for the input-distribution histogram.
func (c *Ctx) Count(kind string) { c.hist[kind]++ }

// Direct records the verdict of a direct property oracle (implementation only).
func (c *Ctx) Direct(ok bool, what string, input map[string]any) {
	c.nDirectChecks++
	if ok {
		return
	}
	c.nDirectFail++
	rec := map[string]any{"property": c.Prop, "what": what, "input": input}
	b, _ := json.Marshal(rec)
	c.direct.Write(b)
	c.direct.WriteByte('\n')
	c.direct.Flush()
}

func protect(f func() string) (out string) {
	defer func() {
		if r := recover(); r != nil {
			out = "panic"
			lastPanic = fmt.Sprint(r) + "\n" + string(debug.Stack())
		}
	}()
	return f()
}

var lastPanic string

type propFn func(c *Ctx)

var props = map[string]propFn{}

func main() {
	prop := flag.String("prop", "", "property id")
	tier := flag.String("tier", "quick", "quick|thorough")
	seed := flag.Uint64("seed", 1, "seed")
	out := flag.String("out", "", "output directory")
	replay := flag.String("replay", "", "replay file: op lines to execute instead of generating")
	flag.Parse()
	fn, ok := props[*prop]
	if !ok {
		var ks []string
		for k := range props {
			ks = append(ks, k)
		}
		sort.Strings(ks)
		fmt.Fprintf(os.Stderr, "unknown property %q; have %s\n", *prop, strings.Join(ks, " "))
		os.Exit(2)
	}
	os.MkdirAll(*out, 0o755)
	c := &Ctx{Prop: *prop, Tier: *tier, Seed: *seed, Out: *out, hist: map[string]int{}, notes: map[string]any{}, rerunEvery: 5}
	if *tier == "thorough" {
		c.rerunEvery = 9
	}
	if *prop == "C19" {
		c.rerunEvery *= 20 // very many very cheap stateless operations
	}
	var err error
	c.opsF, err = os.Create(filepath.Join(*out, "ops.txt"))
	must(err)
	c.implF, err = os.Create(filepath.Join(*out, "impl.txt"))
	must(err)
	df, err := os.Create(filepath.Join(*out, "direct.jsonl"))
	must(err)
	c.ops = bufio.NewWriterSize(c.opsF, 1<<16)
	c.impl = bufio.NewWriterSize(c.implF, 1<<16)
	c.direct = bufio.NewWriter(df)
	installRand(c.Seed)
	func() {
		// a panic in generator/oracle code outside an op (the implementation panicked while a direct
		// oracle was calling it) is itself a finding: record it with the last journalled op and stop
		defer func() {
			if r := recover(); r != nil {
				c.Direct(false, "implementation panicked inside a direct oracle call: "+fmt.Sprint(r),
					map[string]any{"last_op": c.lastOp, "stack": string(debug.Stack())})
			}
		}()
		if *replay != "" {
			replayOps(c, *replay)
		} else {
			fn(c)
		}
	}()
	c.ops.Flush()
	c.impl.Flush()
	c.direct.Flush()
	st := map[string]any{
		"ops": c.nOps, "histogram": c.hist, "direct_checks": c.nDirectChecks,
		"direct_failures": c.nDirectFail, "samples": c.samples, "notes": c.notes,
	}
	b, _ := json.MarshalIndent(st, "", " ")
	must(os.WriteFile(filepath.Join(*out, "stats.json"), b, 0o644))
}

func must(err error) {
	if err != nil {
		panic(err)
	}
}

// replayers execute one op line against the implementation (used by --replay and by the
// corpus); registered per op name.
var replayers = map[string]func(c *Ctx, args []string) string{}

func replayOps(c *Ctx, path string) {
	f, err := os.Open(path)
	must(err)
	defer f.Close()
	sc := bufio.NewScanner(f)
	sc.Buffer(make([]byte, 1<<20), 1<<26)
	for sc.Scan() {
		line := strings.TrimSpace(sc.Text())
		if line == "" || strings.HasPrefix(line, "#") {
			continue
		}
		fs := strings.Split(line, " ")
		r, ok := replayers[fs[0]]
		if !ok {
			c.Op(line, func() string { return "no-replayer" })
			continue
		}
		c.Op(line, func() string { return r(c, fs[1:]) })
	}
}

// Run journals and executes the op through its registered replayer, so that generated runs
// and replays execute identical code.
func (c *Ctx) Run(op string, args ...string) string {
	r, ok := replayers[op]
	if !ok {
		panic("no replayer for " + op)
	}
	line := op
	if len(args) > 0 {
		line += " " + strings.Join(args, " ")
	}
	out := c.Op(line, func() string { return r(c, args) })
	c.rerunEarlier(op, args, out)
	return out
}

// rerunEarlier: every operation compared with the model is a function of its arguments, so running an earlier
// one again, after other operations have run in the same process, must give what it gave before. Every few
// operations one of the recent ones is run again (implementation only; the model is not asked twice) and compared:
// a difference is a result that depends on the history of the process.
type pastOp struct {
	op   string
	args []string
	out  string
}

func (c *Ctx) rerunEarlier(op string, args []string, out string) {
	if c.noRerun || out == "panic" || strings.HasPrefix(op, "c17.") {
		return
	}
	c.recent = append(c.recent, pastOp{op, append([]string{}, args...), out})
	if len(c.recent) > 24 {
		c.recent = c.recent[1:]
	}
	c.sinceRerun++
	if c.sinceRerun < c.rerunEvery || len(c.recent) < 3 {
		return
	}
	c.sinceRerun = 0
	// deterministic choice: alternate between the operation just before this one and an older one
	c.rerunCount++
	idx := len(c.recent) - 2
	if c.rerunCount%2 == 0 {
		idx = (c.rerunCount * 7) % (len(c.recent) - 1)
	}
	p := c.recent[idx]
	c.noRerun = true
	again := protect(func() string { return replayers[p.op](c, p.args) })
	c.noRerun = false
	c.hist["rerun-of-an-earlier-op"]++
	if again != p.out {
		c.Direct(false, "an operation run again later in the same process gives another result (the result depends on the history of the process)",
			map[string]any{"op": p.op + " " + strings.Join(p.args, " "), "first": trunc(p.out), "again": trunc(again), "ran_in_between": op})
	}
}

// DirectOK is Direct that also returns the verdict.
func (c *Ctx) DirectOK(ok bool, what string, input map[string]any) bool {
	c.Direct(ok, what, input)
	return ok
}
