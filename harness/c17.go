package main

import (
	"bytes"
	stded "crypto/ed25519"
	"crypto/elliptic"
	"crypto/rsa"
	"crypto/sha512"
	"fmt"
	"golang.org/x/crypto/hkdf"
	"io"
	"math/big"
	"sync"

	"github.com/cloudflare/circl/oprf"
	"github.com/cloudflare/pat-go/ecdsa"
	"github.com/cloudflare/pat-go/ed25519"
	"github.com/cloudflare/pat-go/tokens"
	"github.com/cloudflare/pat-go/tokens/batched"
	"github.com/cloudflare/pat-go/tokens/type1"
	"github.com/cloudflare/pat-go/tokens/type2"
	"github.com/cloudflare/pat-go/tokens/type3"
	"github.com/cloudflare/pat-go/tokens/type5"
)

func init() {
	props["C17"] = runC17
	replayers["c17.scenario"] = func(c *Ctx, a []string) string { return "replay-runs-with-the-stream" }
}

// conc runs f(g, k) from `gor` goroutines × `calls` calls, all released at once, and returns the results.
func conc(gor, calls int, f func(g, k int) string) [][]string {
	out := make([][]string, gor)
	var wg sync.WaitGroup
	start := make(chan struct{})
	for g := 0; g < gor; g++ {
		out[g] = make([]string, calls)
		wg.Add(1)
		go func(g int) {
			defer wg.Done()
			<-start
			for k := 0; k < calls; k++ {
				out[g][k] = f(g, k)
			}
		}(g)
	}
	close(start)
	wg.Wait()
	return out
}

var c17round int

func runC17(c *Ctx) {
	r := NewRng(c.Seed, "c17")
	gor := c.Pick(8, 16)
	calls := c.Pick(6, 40)
	rounds := c.Pick(3, 25)
	mult := 1
	scenario := func(name string, setup func() func(g, k int) (string, string)) {
		for round := 0; round < rounds*mult; round++ {
			verdict := c.Op(fmt.Sprintf("c17.scenario %s %d %d", name, gor, calls), func() string {
				f := setup() // a freshly constructed shared object per round: "from first use onwards"
				bad := ""
				var mu sync.Mutex
				conc(gor, calls, func(g, k int) string {
					got, want := f(g, k)
					if got != want {
						mu.Lock()
						bad = fmt.Sprintf("call (%d,%d): got %s, a sequential call gives %s", g, k, trunc(got), trunc(want))
						mu.Unlock()
					}
					return got
				})
				if bad != "" {
					return bad
				}
				return "consistent"
			})
			c.Count(name)
			c.Direct(verdict == "consistent", "concurrent use of a shared object: "+verdict, map[string]any{"scenario": name, "goroutines": gor, "calls": calls})
		}
	}
	msg := func(g, k int) []byte { return []byte(fmt.Sprintf("message-%d-%d", g, k)) }

	// Ed25519 first: its package-level tables are built on first use
	scenario("ed25519.shared-key:Sign+Verify+Blind", func() func(g, k int) (string, string) {
		seed := r.Bytes(32)
		// the key comes from crypto/ed25519 (same format), so that the fork's package-level tables are first
		// touched by the concurrent calls below, not by this sequential setup
		sk := ed25519.PrivateKey(stded.NewKeyFromSeed(seed))
		pk := ed25519.PublicKey(sk[32:])
		blind := r.Bytes(32)
		return func(g, k int) (string, string) {
			m := msg(g, k)
			sig := ed25519.Sign(sk, m)
			bp, _ := ed25519.BlindPublicKeyWithContext(pk, blind, m)
			bs := ed25519.BlindKeySignWithContext(sk, m, blind, m)
			// a per-call blind as well: unblinding inverts blinding whatever the other goroutines are unblinding
			own := sha256b(m)
			op, _ := ed25519.BlindPublicKeyWithContext(pk, own, m)
			up, _ := ed25519.UnblindPublicKeyWithContext(op, own, m)
			up2, _ := ed25519.UnblindPublicKeyWithContext(bp, blind, m)
			got := fmt.Sprint(ed25519.Verify(pk, m, sig), ed25519.Verify(bp, m, bs), ed25519.Verify(pk, m, bs), bytes.Equal(up, pk), bytes.Equal(up2, pk))
			return got, "true true false true true"
		}
	})
	// the shared blind is the first half of a 64-byte blinding key (a slice with spare capacity), the contexts differ per call and are
	// short enough to fit behind it (round 8: blind ‖ 0x00 ‖ context built by appending to the caller's blind)
	scenario("ed25519.shared-blind-with-capacity", func() func(g, k int) (string, string) {
		sk := ed25519.PrivateKey(stded.NewKeyFromSeed(r.Bytes(32)))
		pk := ed25519.PublicKey(sk[32:])
		bkey := r.Bytes(64)
		snapshot := append([]byte{}, bkey...)
		blind := bkey[:32]
		exact := append(make([]byte, 0, 32), blind...)
		return func(g, k int) (string, string) {
			ctx := []byte(fmt.Sprintf("c%d-%d", g, k))
			want, _ := ed25519.BlindPublicKeyWithContext(pk, exact, ctx)
			bp, _ := ed25519.BlindPublicKeyWithContext(pk, blind, ctx)
			bs := ed25519.BlindKeySignWithContext(sk, ctx, blind, ctx)
			up, _ := ed25519.UnblindPublicKeyWithContext(bp, blind, ctx)
			got := fmt.Sprint(bytes.Equal(bp, want), ed25519.Verify(want, ctx, bs), bytes.Equal(up, pk), bytes.Equal(bkey, snapshot))
			return got, "true true true true"
		}
	})
	scenario("ecdsa.shared-key:Sign+Verify+Blind", func() func(g, k int) (string, string) {
		sk, _ := ecdsa.CreateKey(elliptic.P384(), r.Bytes(48))
		// every other round the shared blinding key comes from bytes that are not reduced modulo the group order
		bkBytes := r.Bytes(48)
		c17round++
		if c17round%2 == 1 {
			bkBytes = bytes.Repeat([]byte{0xff}, 48)
		}
		bk, _ := ecdsa.CreateKey(elliptic.P384(), bkBytes)
		// the reference is computed from another key object, so that the shared one is first used by the concurrent calls
		bkRef, _ := ecdsa.CreateKey(elliptic.P384(), bkBytes)
		refBp, _ := ecdsa.BlindPublicKeyWithContext(elliptic.P384(), &sk.PublicKey, bkRef, []byte("ctx"))
		return func(g, k int) (string, string) {
			d := msg(g, k)
			rr, ss, err := ecdsa.Sign(&failReader{limit: -1}, sk, d)
			if err != nil {
				return "sign-error", "ok"
			}
			bp, _ := ecdsa.BlindPublicKeyWithContext(elliptic.P384(), &sk.PublicKey, bk, []byte("ctx"))
			br, bs, _ := ecdsa.BlindKeySignWithContext(&failReader{limit: -1}, sk, bk, d, []byte("ctx"))
			der, _ := ecdsa.SignASN1(&failReader{limit: -1}, sk, d)
			up, _ := ecdsa.UnblindPublicKeyWithContext(elliptic.P384(), bp, bk, []byte("ctx"))
			// and with a per-call context (another blinding factor under the same shared blinding key)
			op, _ := ecdsa.BlindPublicKeyWithContext(elliptic.P384(), &sk.PublicKey, bk, d)
			up2, _ := ecdsa.UnblindPublicKeyWithContext(elliptic.P384(), op, bk, d)
			got := fmt.Sprint(ecdsa.Verify(&sk.PublicKey, d, rr, ss), bp.X.Cmp(refBp.X) == 0, ecdsa.Verify(bp, d, br, bs), ecdsa.VerifyASN1(&sk.PublicKey, d, der),
				up != nil && up.X.Cmp(sk.X) == 0 && up.Y.Cmp(sk.Y) == 0, up2 != nil && up2.X.Cmp(sk.X) == 0 && up2.Y.Cmp(sk.Y) == 0)
			return got, "true true true true true true"
		}
	})
	scenario("type1.issuer:Evaluate+Verify+TokenKeyID", func() func(g, k int) (string, string) {
		key := oprfKey(oprf.SuiteP384, r.Bytes(16))
		// every other round the operator has published the key first (Public() was called on the very object the issuer gets)
		c17round++
		if c17round%2 == 0 {
			key.Public()
		}
		// the reference key id from an independent copy of the key, so that the shared one is untouched before the goroutines start
		pkEnc, _ := oprfKey(oprf.SuiteP384, nil).Public().MarshalBinary()
		_ = pkEnc
		kb, _ := key.MarshalBinary()
		key2 := new(oprf.PrivateKey)
		key2.UnmarshalBinary(oprf.SuiteP384, kb)
		pk2 := key2.Public()
		pe, _ := pk2.MarshalBinary()
		wantID := hxv(sha256b(pe))
		iss := type1.NewBasicPrivateIssuer(key)
		return func(g, k int) (string, string) {
			id := iss.TokenKeyID()
			pk2 := new(oprf.PublicKey)
			pk2.UnmarshalBinary(oprf.SuiteP384, pe)
			st, err := type1.NewBasicPrivateClient().CreateTokenRequest(msg(g, k), bytes.Repeat([]byte{byte(g)}, 32), id, pk2)
			if err != nil {
				return "create-error", "ok"
			}
			resp, err := iss.Evaluate(st.Request())
			if err != nil {
				return "evaluate-error", "ok"
			}
			tok, err := st.FinalizeToken(resp)
			if err != nil {
				return "finalize-error", "ok"
			}
			return fmt.Sprintf("%s %v", hxv(id), iss.Verify(tok) == nil), wantID + " true"
		}
	})
	scenario("type5.issuer:Evaluate+Verify+TokenKeyID", func() func(g, k int) (string, string) {
		key := oprfKey(oprf.SuiteRistretto255, r.Bytes(16))
		kb, _ := key.MarshalBinary()
		key2 := new(oprf.PrivateKey)
		key2.UnmarshalBinary(oprf.SuiteRistretto255, kb)
		pk2 := key2.Public()
		pe, _ := pk2.MarshalBinary()
		wantID := hxv(sha256b(pe))
		iss := type5.NewBatchedPrivateIssuer(key)
		return func(g, k int) (string, string) {
			id := iss.TokenKeyID()
			pk2 := new(oprf.PublicKey)
			pk2.UnmarshalBinary(oprf.SuiteRistretto255, pe)
			st, err := type5.NewBatchedPrivateClient().CreateTokenRequest(msg(g, k), [][]byte{bytes.Repeat([]byte{byte(g)}, 32), bytes.Repeat([]byte{byte(k)}, 32)}, id, pk2)
			if err != nil {
				return "create-error", "ok"
			}
			resp, err := iss.Evaluate(st.Request())
			if err != nil {
				return "evaluate-error", "ok"
			}
			toks, err := st.FinalizeTokens(resp)
			if err != nil {
				return "finalize-error", "ok"
			}
			return fmt.Sprintf("%s %v %v", hxv(id), iss.Verify(toks[0]) == nil, iss.Verify(toks[1]) == nil), wantID + " true true"
		}
	})
	scenario("type2.issuer:Evaluate+TokenKeyID", func() func(g, k int) (string, string) {
		iss := type2.NewBasicPublicIssuer(rsaKey(r.IntN(4)))
		wantID := hxv(iss.TokenKeyID())
		return func(g, k int) (string, string) {
			id := iss.TokenKeyID()
			st, err := type2.NewBasicPublicClient().CreateTokenRequest(msg(g, k), bytes.Repeat([]byte{byte(g)}, 32), id, iss.TokenKey())
			if err != nil {
				return "create-error", "ok"
			}
			resp, err := iss.Evaluate(st.Request())
			if err != nil {
				return "evaluate-error", "ok"
			}
			resp2, _ := iss.Evaluate(st.Request()) // blind RSA signing is deterministic
			_, err = st.FinalizeToken(resp)
			return fmt.Sprintf("%s %v %v", hxv(id), err == nil, bytes.Equal(resp, resp2)), wantID + " true true"
		}
	})
	// split roles on a freshly constructed issuer: half of the goroutines only evaluate, the other half only ask for the key id,
	// and nobody has touched the object before — a key id computed lazily races with an evaluation that never asked for it
	// (round 6). Requests and the expected id come from a second issuer object on the same key.
	scenario("type2.issuer:Evaluate‖TokenKeyID(split roles)", func() func(g, k int) (string, string) {
		key := rsaKey(r.IntN(4))
		iss := type2.NewBasicPublicIssuer(key)
		ref := type2.NewBasicPublicIssuer(key)
		refID := ref.TokenKeyID()
		return func(g, k int) (string, string) {
			if g%2 == 1 {
				return hxv(iss.TokenKeyID()), hxv(refID)
			}
			st, err := type2.NewBasicPublicClient().CreateTokenRequest(msg(g, k), bytes.Repeat([]byte{byte(g)}, 32), refID, ref.TokenKey())
			if err != nil {
				return "create-error", "ok"
			}
			resp, err := iss.Evaluate(st.Request())
			if err != nil {
				return "evaluate-error", "ok"
			}
			_, err = st.FinalizeToken(resp)
			return fmt.Sprint(err == nil), "true"
		}
	})
	scenario("type1.issuer:Evaluate‖TokenKeyID(split roles)", func() func(g, k int) (string, string) {
		seed := r.Bytes(16)
		iss := type1.NewBasicPrivateIssuer(oprfKey(oprf.SuiteP384, seed))
		ref := type1.NewBasicPrivateIssuer(oprfKey(oprf.SuiteP384, seed))
		refID := ref.TokenKeyID()
		pe, _ := ref.TokenKey().MarshalBinary()
		return func(g, k int) (string, string) {
			if g%2 == 1 {
				return hxv(iss.TokenKeyID()), hxv(refID)
			}
			pk := new(oprf.PublicKey)
			pk.UnmarshalBinary(oprf.SuiteP384, pe)
			st, err := type1.NewBasicPrivateClient().CreateTokenRequest(msg(g, k), bytes.Repeat([]byte{byte(g)}, 32), refID, pk)
			if err != nil {
				return "create-error", "ok"
			}
			resp, err := iss.Evaluate(st.Request())
			if err != nil {
				return "evaluate-error", "ok"
			}
			_, err = st.FinalizeToken(resp)
			return fmt.Sprint(err == nil), "true"
		}
	})
	scenario("type5.issuer:Evaluate‖TokenKeyID(split roles)", func() func(g, k int) (string, string) {
		seed := r.Bytes(16)
		iss := type5.NewBatchedPrivateIssuer(oprfKey(oprf.SuiteRistretto255, seed))
		ref := type5.NewBatchedPrivateIssuer(oprfKey(oprf.SuiteRistretto255, seed))
		refID := ref.TokenKeyID()
		pe, _ := ref.TokenKey().MarshalBinary()
		return func(g, k int) (string, string) {
			if g%2 == 1 {
				return hxv(iss.TokenKeyID()), hxv(refID)
			}
			pk := new(oprf.PublicKey)
			pk.UnmarshalBinary(oprf.SuiteRistretto255, pe)
			st, err := type5.NewBatchedPrivateClient().CreateTokenRequest(msg(g, k), [][]byte{bytes.Repeat([]byte{byte(g)}, 32)}, refID, pk)
			if err != nil {
				return "create-error", "ok"
			}
			resp, err := iss.Evaluate(st.Request())
			if err != nil {
				return "evaluate-error", "ok"
			}
			_, err = st.FinalizeTokens(resp)
			return fmt.Sprint(err == nil), "true"
		}
	})
	scenario("type3.issuer:Evaluate+TokenKeyID+NameKey", func() func(g, k int) (string, string) {
		iss := type3.NewRateLimitedIssuer(rsaKey(r.IntN(4)))
		iss.AddOrigin("a.example")
		iss.AddOrigin("b.example")
		secret, blind := r.Bytes(48), r.Bytes(48)
		return func(g, k int) (string, string) {
			origin := []string{"a.example", "b.example", "c.example"}[(g+k)%3]
			st, err := type3.NewRateLimitedClientFromSecret(secret).CreateTokenRequest(msg(g, k), bytes.Repeat([]byte{byte(g)}, 32), blind, iss.TokenKeyID(), iss.TokenKey(), origin, iss.NameKey())
			if err != nil {
				return "create-error", "ok"
			}
			resp, _, err := iss.Evaluate(st.Request().Marshal())
			if origin == "c.example" {
				return fmt.Sprint(err != nil), "true"
			}
			if err != nil {
				return "evaluate-error", "ok"
			}
			_, err = st.FinalizeToken(resp)
			return fmt.Sprint(err == nil), "true"
		}
	})
	// the whole rate-limited flow: many clients (own secrets and blinds, hence fresh request keys in every call), one issuer,
	// an attester of their own each — the index the attester derives is the one of (client key, origin index key)
	scenario("type3.flow:client+issuer.Evaluate+attester", func() func(g, k int) (string, string) {
		iss := type3.NewRateLimitedIssuer(rsaKey(r.IntN(4)))
		ikA, _ := ecdsa.CreateKey(elliptic.P384(), r.Bytes(48))
		ikB, _ := ecdsa.CreateKey(elliptic.P384(), r.Bytes(48))
		iss.AddOriginWithIndexKey("a.example", ikA)
		iss.AddOriginWithIndexKey("b.example", ikB)
		return func(g, k int) (string, string) {
			h := sha512.Sum384(msg(g, k))
			secret, blind := h[:48], append([]byte{byte(g + 1), byte(k + 1)}, h[:46]...)
			origin, ik := "a.example", ikA
			if (g+k)%2 == 1 {
				origin, ik = "b.example", ikB
			}
			st, err := type3.NewRateLimitedClientFromSecret(secret).CreateTokenRequest(msg(g, k), bytes.Repeat([]byte{byte(g)}, 32), blind, iss.TokenKeyID(), iss.TokenKey(), origin, iss.NameKey())
			if err != nil {
				return "create-error", "ok"
			}
			resp, brk, err := iss.Evaluate(st.Request().Marshal())
			if err != nil {
				return "evaluate-error", "ok"
			}
			att := type3.NewRateLimitedAttester(newMemCache())
			if att.VerifyRequest(*st.Request(), blind, st.ClientKey(), []byte("anon")) != nil {
				return "attester-refused", "ok"
			}
			idx, err := att.FinalizeIndex(st.ClientKey(), blind, brk, []byte("anon"))
			if err != nil {
				return "index-error", "ok"
			}
			if _, err := st.FinalizeToken(resp); err != nil {
				return "finalize-error", "ok"
			}
			sk, _ := ecdsa.CreateKey(elliptic.P384(), secret)
			bp, _ := ecdsa.BlindPublicKeyWithContext(elliptic.P384(), &sk.PublicKey, ik, t3ctx("IssuerBlind"))
			ref := make([]byte, 48)
			io.ReadFull(hkdf.New(sha512.New384, elliptic.MarshalCompressed(elliptic.P384(), bp.X, bp.Y), st.ClientKey(), []byte("IssuerOriginAlias")), ref)
			return hxv(idx), hxv(ref)
		}
	})
	scenario("batched.issuer:EvaluateBatch", func() func(g, k int) (string, string) {
		a1 := newAd1(c.Seed, "c17-1", r.Bytes(8))
		a2 := newAd2(c.Seed, "c17-2", r.IntN(4))
		// the adapters re-key the crypto/rand replacement; use plain evaluation here
		i1, i2 := a1.i1, a2.i2
		a1.eval = func(q tokens.TokenRequest) ([]byte, error) { return i1.Evaluate(q.(*type1.BasicPrivateTokenRequest)) }
		// key rotation: two issuers per token type; calls address either key
		b1 := newAd1(c.Seed, "c17-1b", r.Bytes(8))
		for b1.keyID[31] == a1.keyID[31] {
			b1 = newAd1(c.Seed, "c17-1b", r.Bytes(8))
		}
		j1 := b1.i1
		b1.eval = func(q tokens.TokenRequest) ([]byte, error) { return j1.Evaluate(q.(*type1.BasicPrivateTokenRequest)) }
		bi := batched.NewBasicBatchedIssuer(plainIssuer{a1}, plainIssuer{a2}, plainIssuer{b1})
		_ = i2
		return func(g, k int) (string, string) {
			useA, useI := a1, i1
			if (g+k)%2 == 1 {
				useA, useI = b1, j1
			}
			st1, _ := type1.NewBasicPrivateClient().CreateTokenRequest(msg(g, k), bytes.Repeat([]byte{1}, 32), useA.keyID, useI.TokenKey())
			st2, _ := type2.NewBasicPublicClient().CreateTokenRequest(msg(g, k), bytes.Repeat([]byte{2}, 32), a2.keyID, i2.TokenKey())
			badID := st1.Request().TokenKeyID ^ 1
			for badID == a1.keyID[31] || badID == b1.keyID[31] {
				badID++
			}
			bad := &type1.BasicPrivateTokenRequest{TokenKeyID: badID, BlindedReq: st1.Request().BlindedReq}
			br, _ := batched.NewBasicClient().CreateTokenRequest([]tokens.TokenRequestWithDetails{st1.Request(), bad, st2.Request()})
			wire := &batched.BatchedTokenRequest{}
			wire.Unmarshal(br.Marshal())
			out, err := bi.EvaluateBatch(wire)
			if err != nil {
				return "evaluate-error", "ok"
			}
			rs, err := batched.UnmarshalBatchedTokenResponses(out)
			if err != nil || len(rs) != 3 {
				return "decode-error", "ok"
			}
			_, e1 := st1.FinalizeToken(rs[0])
			_, e2 := st2.FinalizeToken(rs[2])
			return fmt.Sprint(e1 == nil, len(rs[1]) == 0, e2 == nil), "true true true"
		}
	})
	// a batch issuer configured for one token type only: requests of the other (decodable) type are answered "absent"
	// (the write this scenario is after happens once per issuer object: more, shorter rounds)
	mult = 4
	scenario("batched.issuer(type-1 only):EvaluateBatch with type-2 requests", func() func(g, k int) (string, string) {
		a1 := newAd1(c.Seed, "c17-1o", r.Bytes(8))
		a2 := newAd2(c.Seed, "c17-2o", r.IntN(4))
		i1, i2 := a1.i1, a2.i2
		a1.eval = func(q tokens.TokenRequest) ([]byte, error) { return i1.Evaluate(q.(*type1.BasicPrivateTokenRequest)) }
		bi := batched.NewBasicBatchedIssuer(plainIssuer{a1})
		return func(g, k int) (string, string) {
			st1, _ := type1.NewBasicPrivateClient().CreateTokenRequest(msg(g, k), bytes.Repeat([]byte{1}, 32), a1.keyID, i1.TokenKey())
			st2, _ := type2.NewBasicPublicClient().CreateTokenRequest(msg(g, k), bytes.Repeat([]byte{2}, 32), a2.keyID, i2.TokenKey())
			reqs := []tokens.TokenRequestWithDetails{st2.Request(), st1.Request()}
			if (g+k)%3 == 0 && k > 0 {
				reqs = []tokens.TokenRequestWithDetails{st1.Request()}
			}
			br, _ := batched.NewBasicClient().CreateTokenRequest(reqs)
			wire := &batched.BatchedTokenRequest{}
			wire.Unmarshal(br.Marshal())
			out, err := bi.EvaluateBatch(wire)
			if err != nil {
				return "evaluate-error", "ok"
			}
			rs, err := batched.UnmarshalBatchedTokenResponses(out)
			if err != nil || len(rs) != len(reqs) {
				return "decode-error", "ok"
			}
			_, e1 := st1.FinalizeToken(rs[len(rs)-1])
			return fmt.Sprint(e1 == nil, len(rs) == 1 || len(rs[0]) == 0), "true true"
		}
	})
	mult = 1
	// one verification key (the issuer's published token key object) shared by many clients
	scenario("type2.shared-token-key:CreateTokenRequestWithBlind+FinalizeToken", func() func(g, k int) (string, string) {
		key := rsaKey(r.IntN(4))
		iss := type2.NewBasicPublicIssuer(key)
		pub := iss.TokenKey()
		// an equal key in another object, for the sequential reference
		ref := &rsa.PublicKey{N: new(big.Int).Set(pub.N), E: pub.E}
		blind := r.Bytes(256)
		blind[0] &= 0x3f
		salt := r.Bytes(48)
		return func(g, k int) (string, string) {
			want, err := type2.NewBasicPublicClient().CreateTokenRequestWithBlind(msg(g, k), bytes.Repeat([]byte{byte(k)}, 32), iss.TokenKeyID(), ref, blind, salt)
			if err != nil {
				return "reference-error", "ok"
			}
			st, err := type2.NewBasicPublicClient().CreateTokenRequestWithBlind(msg(g, k), bytes.Repeat([]byte{byte(k)}, 32), iss.TokenKeyID(), pub, blind, salt)
			if err != nil {
				return "create-error", "ok"
			}
			return hxv(st.Request().Marshal()), hxv(want.Request().Marshal())
		}
	})
}

// plainIssuer is an adIssuer without the per-request re-keying of the random source
type plainIssuer struct{ a *adIssuer }

func (p plainIssuer) Evaluate(req tokens.TokenRequest) ([]byte, error) { return p.a.eval(req) }
func (p plainIssuer) TokenKeyID() []byte                               { return p.a.keyID }
func (p plainIssuer) Type() uint16                                     { return p.a.ty }

func trunc(s string) string {
	if len(s) > 120 {
		return s[:120] + "…"
	}
	return s
}
