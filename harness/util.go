package main

import (
	crand "crypto/rand"
	"encoding/binary"
	"encoding/hex"
	"hash/fnv"
	"io"
	mrand "math/rand/v2"
	"sync"
)

// hx encodes bytes for the line protocol: "-" for a non-nil empty slice, "nil" for nil.
func hx(b []byte) string {
	if b == nil {
		return "nil"
	}
	if len(b) == 0 {
		return "-"
	}
	return hex.EncodeToString(b)
}

// hxv encodes a value (nil and empty both "-").
func hxv(b []byte) string {
	if len(b) == 0 {
		return "-"
	}
	return hex.EncodeToString(b)
}

func unhx(s string) []byte {
	if s == "nil" {
		return nil
	}
	if s == "-" {
		return []byte{}
	}
	b, err := hex.DecodeString(s)
	if err != nil {
		panic("bad hex in op line: " + s)
	}
	return b
}

// Rng is one deterministic sub-stream.
type Rng struct{ *mrand.Rand }

func seedFor(seed uint64, name string) [32]byte {
	var k [32]byte
	binary.LittleEndian.PutUint64(k[:8], seed)
	h := fnv.New64a()
	h.Write([]byte(name))
	binary.LittleEndian.PutUint64(k[8:16], h.Sum64())
	copy(k[16:], "pat-go-verif-seed")
	return k
}

func NewRng(seed uint64, name string) *Rng {
	return &Rng{mrand.New(mrand.NewChaCha8(seedFor(seed, name)))}
}

func (r *Rng) Bytes(n int) []byte {
	b := make([]byte, n)
	for i := range b {
		b[i] = byte(r.Uint32())
	}
	return b
}

func (r *Rng) Bool() bool { return r.Uint32()&1 == 1 }

// detReader replaces crypto/rand.Reader. One-byte reads (ecdsa/rsa MaybeReadByte, which
// happen or not on a scheduler coin flip) are served from a side stream so the main stream
// never shifts.
type detReader struct {
	mu   sync.Mutex
	main *mrand.ChaCha8
	side *mrand.ChaCha8
}

func (d *detReader) Read(p []byte) (int, error) {
	d.mu.Lock()
	defer d.mu.Unlock()
	if len(p) == 1 {
		return d.side.Read(p)
	}
	return d.main.Read(p)
}

var theRand *detReader
var realRand io.Reader

func installRand(seed uint64) {
	realRand = crand.Reader
	theRand = &detReader{main: mrand.NewChaCha8(seedFor(seed, "crypto/rand")), side: mrand.NewChaCha8(seedFor(seed, "crypto/rand/side"))}
	crand.Reader = theRand
}

// reseedRand re-keys the crypto/rand replacement (per op, so a replay of one op is exact).
func reseedRand(seed uint64, name string) {
	theRand.mu.Lock()
	theRand.main = mrand.NewChaCha8(seedFor(seed, "crypto/rand:"+name))
	theRand.side = mrand.NewChaCha8(seedFor(seed, "crypto/rand/side:"+name))
	theRand.mu.Unlock()
}
