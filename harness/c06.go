package main

import (
	"bytes"
	stdecdsa "crypto/ecdsa"
	"crypto/elliptic"
	"crypto/sha512"
	"encoding/hex"
	"fmt"
	"math/big"
	"strings"

	"github.com/cloudflare/pat-go/ecdsa"
	"github.com/cloudflare/pat-go/tokens/type3"
	"golang.org/x/crypto/cryptobyte"
)

func init() {
	props["C06"] = runC06
	// c06.verify <requestKey> <nameKeyId> <ciphertext> <signature> <blind> <clientKey> <known 0|1>
	replayers["c06.verify"] = func(c *Ctx, a []string) string {
		req := type3.RateLimitedTokenRequest{RequestKey: unhx(a[0]), NameKeyID: unhx(a[1]), EncryptedTokenRequest: unhx(a[2]), Signature: unhx(a[3])}
		if len(a) > 7 {
			// the request object held other contents before and was encoded then (a caller that edits a request
			// it has already marshalled): what is verified is what the object holds now
			pre := strings.Split(a[7], ",")
			req = type3.RateLimitedTokenRequest{RequestKey: unhx(pre[0]), NameKeyID: unhx(pre[1]), EncryptedTokenRequest: unhx(pre[2]), Signature: unhx(pre[3])}
			req.Marshal()
			req.RequestKey, req.NameKeyID, req.EncryptedTokenRequest, req.Signature = unhx(a[0]), unhx(a[1]), unhx(a[2]), unhx(a[3])
		}
		blind, clientKey := unhx(a[4]), unhx(a[5])
		cache := newMemCache()
		var pre *type3.ClientState
		if a[6] == "1" {
			pre = &type3.ClientState{}
			cache.m[hex.EncodeToString(clientKey)] = pre
		}
		// one attester object for the whole run (whatever it keeps besides the cache outlives the operation);
		// only the cache behind it is this operation's own
		c06cache.cur = cache
		err := c06att.VerifyRequest(req, blind, clientKey, []byte("anon"))
		verdict := "accept"
		if err != nil {
			verdict = "reject"
		}
		changed := 0
		if pre != nil && cache.m[hex.EncodeToString(clientKey)] != pre {
			changed = 1
		}
		return fmt.Sprintf("%s puts=%d clients=%d replaced=%d", verdict, len(cache.puts), len(cache.m), changed)
	}
}

// switchCache forwards to the cache of the current operation.
type switchCache struct{ cur *memCache }

func (s *switchCache) Get(id string) (*type3.ClientState, bool) { return s.cur.Get(id) }
func (s *switchCache) Put(id string, st *type3.ClientState)     { s.cur.Put(id, st) }

var c06cache = &switchCache{}
var c06att = type3.NewRateLimitedAttester(c06cache)

// c06Conj is the conjunction of C06 evaluated outside the attester: standard-library ECDSA over
// the request's exact contents, and the request key recomputed from client key and blind.
func c06Conj(req type3.RateLimitedTokenRequest, blind, clientKey []byte) bool {
	x, y := elliptic.UnmarshalCompressed(elliptic.P384(), req.RequestKey)
	if x == nil || len(req.Signature) != 96 {
		return false
	}
	b := cryptobyte.NewBuilder(nil)
	b.AddUint16(3)
	b.AddBytes(req.RequestKey)
	b.AddBytes(req.NameKeyID)
	b.AddUint16LengthPrefixed(func(b *cryptobyte.Builder) { b.AddBytes(req.EncryptedTokenRequest) })
	msg, err := b.Bytes()
	if err != nil {
		return false
	}
	h := sha512.Sum384(msg)
	r, s := new(big.Int).SetBytes(req.Signature[:48]), new(big.Int).SetBytes(req.Signature[48:])
	if !stdecdsa.Verify(&stdecdsa.PublicKey{Curve: elliptic.P384(), X: x, Y: y}, h[:], r, s) {
		return false
	}
	cx, cy := elliptic.UnmarshalCompressed(elliptic.P384(), clientKey)
	if cx == nil {
		return false
	}
	// recomputed without the package under test: circl's hash_to_field over the blind's bytes as an integer
	// encoding (leading zeros dropped, as CreateKey keeps it), standard-library scalar multiplication
	bp := refBlind("P-384", cx, cy, new(big.Int).SetBytes(blind), t3ctx("ClientBlind"))
	if bp == nil {
		return false
	}
	return bytes.Equal(elliptic.MarshalCompressed(elliptic.P384(), bp[0], bp[1]), req.RequestKey)
}

func runC06(c *Ctx) {
	r := NewRng(c.Seed, "c06")
	nClients := c.Pick(3, 12)
	flip := func(b []byte, bit int) []byte {
		o := append([]byte{}, b...)
		o[bit/8] ^= 1 << (bit % 8)
		return o
	}
	var pre *type3.RateLimitedTokenRequest
	run := func(kind string, req type3.RateLimitedTokenRequest, blind, clientKey []byte, honest bool) {
		known := "0"
		if r.IntN(4) == 0 {
			known = "1"
		}
		args := []string{hx(req.RequestKey), hx(req.NameKeyID), hx(req.EncryptedTokenRequest), hx(req.Signature), hx(blind), hx(clientKey), known}
		if pre != nil {
			args = append(args, hx(pre.RequestKey)+","+hx(pre.NameKeyID)+","+hx(pre.EncryptedTokenRequest)+","+hx(pre.Signature))
			kind += "(edited-after-marshal)"
		}
		out := c.Run("c06.verify", args...)
		c.Count(kind)
		in := map[string]any{"kind": kind, "requestKey": hx(req.RequestKey), "nameKeyId": hx(req.NameKeyID), "ct": hx(req.EncryptedTokenRequest),
			"sig": hx(req.Signature), "blind": hx(blind), "clientKey": hx(clientKey), "impl": out}
		if out == "panic" {
			c.Direct(false, "VerifyRequest panicked", in)
			return
		}
		var verdict string
		var puts, clients, replaced int
		fmt.Sscanf(out, "%s puts=%d clients=%d replaced=%d", &verdict, &puts, &clients, &replaced)
		want := c06Conj(req, blind, clientKey)
		acc := verdict == "accept"
		c.Direct(acc == want, fmt.Sprintf("VerifyRequest accepted=%v but signature-valid-and-key-matches=%v", acc, want), in)
		if honest {
			c.Direct(acc, "honest request refused", in)
		}
		if !acc {
			c.Direct(puts == 0 && replaced == 0 && clients == map[string]int{"0": 0, "1": 1}[known], "a rejected request created or altered client state", in)
		} else {
			c.Direct(replaced == 0 && clients == 1 && (puts == 1) == (known == "0"), "an accepted request did not register exactly the new client", in)
		}
	}
	for ci := 0; ci < nClients; ci++ {
		cl := newT3Client(r)
		other := newT3Client(r)
		req := cl.request
		run("honest", req, cl.blind, cl.pubEnc, true)
		// every bit (sampled in quick) of each field
		stride := c.Pick(9, 1)
		off := r.IntN(stride)
		for bit := off; bit < 49*8; bit += stride {
			m := req
			m.RequestKey = flip(req.RequestKey, bit)
			run("flip:requestKey", m, cl.blind, cl.pubEnc, false)
		}
		for bit := off; bit < 32*8; bit += stride {
			m := req
			m.NameKeyID = flip(req.NameKeyID, bit)
			run("flip:nameKeyId", m, cl.blind, cl.pubEnc, false)
		}
		for bit := off; bit < len(req.EncryptedTokenRequest)*8; bit += stride {
			m := req
			m.EncryptedTokenRequest = flip(req.EncryptedTokenRequest, bit)
			run("flip:ciphertext", m, cl.blind, cl.pubEnc, false)
		}
		for bit := off; bit < 96*8; bit += stride {
			m := req
			m.Signature = flip(req.Signature, bit)
			run("flip:signature", m, cl.blind, cl.pubEnc, false)
		}
		// ciphertext length changes (the length prefix is signed)
		m := req
		m.EncryptedTokenRequest = append(append([]byte{}, req.EncryptedTokenRequest...), 0)
		run("ct:extended", m, cl.blind, cl.pubEnc, false)
		m.EncryptedTokenRequest = req.EncryptedTokenRequest[:len(req.EncryptedTokenRequest)-1]
		run("ct:truncated", m, cl.blind, cl.pubEnc, false)
		// name key id of another length: the signed bytes are the field as carried, whatever its length (nothing else checks it)
		m = req
		m.NameKeyID = append(append([]byte{}, req.NameKeyID...), 0)
		run("nameKeyId:extended-by-zero", m, cl.blind, cl.pubEnc, false)
		m.NameKeyID = append(append([]byte{}, req.NameKeyID...), r.Bytes(1+r.IntN(40))...)
		run("nameKeyId:extended", m, cl.blind, cl.pubEnc, false)
		m.NameKeyID = req.NameKeyID[:31]
		run("nameKeyId:truncated", m, cl.blind, cl.pubEnc, false)
		m.NameKeyID = []byte{}
		run("nameKeyId:empty", m, cl.blind, cl.pubEnc, false)
		{
			// signed with a name key id that ends in zero bytes, presented without them; and signed over a short one, presented zero-padded
			nk := append(r.Bytes(29), 0, 0, 0)
			z := signedRequest(cl.sk, cl.blindKey, req.RequestKey, nk, req.EncryptedTokenRequest)
			run("nameKeyId:zero-tail-honest", z, cl.blind, cl.pubEnc, true)
			z.NameKeyID = nk[:29]
			run("nameKeyId:zero-tail-dropped", z, cl.blind, cl.pubEnc, false)
			z = signedRequest(cl.sk, cl.blindKey, req.RequestKey, nk[:29], req.EncryptedTokenRequest)
			run("nameKeyId:short-honest", z, cl.blind, cl.pubEnc, true)
			z.NameKeyID = nk
			run("nameKeyId:short-zero-padded", z, cl.blind, cl.pubEnc, false)
			z = signedRequest(cl.sk, cl.blindKey, req.RequestKey, append(append([]byte{}, req.NameKeyID...), r.Bytes(7)...), req.EncryptedTokenRequest)
			run("nameKeyId:long-honest", z, cl.blind, cl.pubEnc, true)
			z.NameKeyID = z.NameKeyID[:32]
			run("nameKeyId:long-cut-to-32", z, cl.blind, cl.pubEnc, false)
		}
		// signature by another key over the same contents; over other contents by the right key
		rkEnc := req.RequestKey
		m = signedRequest(other.sk, other.blindKey, rkEnc, req.NameKeyID, req.EncryptedTokenRequest)
		run("sig:other-key", m, cl.blind, cl.pubEnc, false)
		m = signedRequest(cl.sk, cl.blindKey, rkEnc, r.Bytes(32), req.EncryptedTokenRequest)
		m.NameKeyID = req.NameKeyID
		run("sig:other-contents", m, cl.blind, cl.pubEnc, false)
		// signed by the unblinded key
		zero, _ := ecdsa.CreateKey(elliptic.P384(), []byte{})
		_ = zero
		// wrong blind, wrong client key, swapped roles
		run("blind:other", req, other.blind, cl.pubEnc, false)
		run("blind:empty", req, []byte{}, cl.pubEnc, false)
		run("blind:leading-zero", req, append([]byte{0, 0}, cl.blind...), cl.pubEnc, true)
		// the blind is a byte string: b + kN is another blind (another blinding factor), although the same residue
		for k := int64(1); k <= 3; k++ {
			bn := new(big.Int).Add(new(big.Int).SetBytes(cl.blind), new(big.Int).Mul(big.NewInt(k), elliptic.P384().Params().N))
			run("blind:+kN", req, bn.Bytes(), cl.pubEnc, false)
		}
		// a request object that was marshalled while it held the honest contents and was edited afterwards, and the
		// reverse (marshalled while tampered, then repaired)
		pre = &req
		for _, f := range []int{0, 1, 2, 3} {
			m := req
			switch f {
			case 0:
				m.RequestKey = flip(req.RequestKey, 8+r.IntN(48*8))
			case 1:
				m.NameKeyID = flip(req.NameKeyID, r.IntN(32*8))
			case 2:
				m.EncryptedTokenRequest = flip(req.EncryptedTokenRequest, r.IntN(len(req.EncryptedTokenRequest)*8))
			case 3:
				m.Signature = flip(req.Signature, r.IntN(96*8))
			}
			pre = &req
			run("edit:tampered", m, cl.blind, cl.pubEnc, false)
			pre = &m
			run("edit:repaired", req, cl.blind, cl.pubEnc, true)
		}
		pre = nil
		run("clientKey:other", req, cl.blind, other.pubEnc, false)
		run("clientKey:is-request-key", req, cl.blind, req.RequestKey, false)
		// the negated key: a client whose secret is N-d has public key -P; its honest request under the same
		// blind carries the request key -(b·P) with a valid signature — presented with client key P it is not authentic
		negSecret := new(big.Int).Sub(elliptic.P384().Params().N, cl.sk.D).FillBytes(make([]byte, 48))
		negSk, _ := ecdsa.CreateKey(elliptic.P384(), negSecret)
		negRk, _ := ecdsa.BlindPublicKeyWithContext(elliptic.P384(), &negSk.PublicKey, cl.blindKey, t3ctx("ClientBlind"))
		negReq := signedRequest(negSk, cl.blindKey, elliptic.MarshalCompressed(elliptic.P384(), negRk.X, negRk.Y), req.NameKeyID, req.EncryptedTokenRequest)
		run("requestKey:negated", negReq, cl.blind, cl.pubEnc, false)
		run("requestKey:negated-own-key", negReq, cl.blind, elliptic.MarshalCompressed(elliptic.P384(), negSk.X, negSk.Y), true)
		// a consistent request of the other client presented with this client's key
		run("request:other-client", other.request, other.blind, cl.pubEnc, false)
		run("request:other-client-own-key", other.request, other.blind, other.pubEnc, true)
		// one attester, and the client key handed over in a buffer its owner refills for the next client
		{
			att := type3.NewRateLimitedAttester(newMemCache())
			cacheView := func() int { return 0 }
			_ = cacheView
			out := c.Op("c03.probe c06.reused-key-buffer "+hx(cl.pubEnc)+" "+hx(other.pubEnc), func() string {
				mc := newMemCache()
				att = type3.NewRateLimitedAttester(mc)
				buf := append([]byte{}, cl.pubEnc...)
				if att.VerifyRequest(req, cl.blind, buf, []byte("anon")) != nil {
					return "honest request refused"
				}
				copy(buf, other.pubEnc)
				if att.VerifyRequest(req, cl.blind, buf, []byte("anon")) == nil {
					return "a request was accepted for a client key it was not blinded from (the key buffer had held the right key before)"
				}
				if _, ok := mc.m[hex.EncodeToString(other.pubEnc)]; ok {
					return "a rejected request registered client state"
				}
				// and the other way round: the buffer first held another client's key
				copy(buf, other.pubEnc)
				att.VerifyRequest(other.request, other.blind, buf, []byte("anon"))
				copy(buf, cl.pubEnc)
				if att.VerifyRequest(req, cl.blind, buf, []byte("anon")) != nil {
					return "honest request refused after the key buffer had held another key"
				}
				return "-"
			})
			c.Count("reused-key-buffer")
			c.Direct(out == "-", "attester and a reused client-key buffer: "+out, map[string]any{"client": hx(cl.pubEnc), "other": hx(other.pubEnc)})
		}
		// malformed keys and signatures
		bad := append([]byte{}, req.RequestKey...)
		bad[0] = 0x04
		m = req
		m.RequestKey = bad
		run("requestKey:bad-prefix", m, cl.blind, cl.pubEnc, false)
		m.RequestKey = req.RequestKey[:48]
		run("requestKey:short", m, cl.blind, cl.pubEnc, false)
		m.RequestKey = bytes.Repeat([]byte{0xff}, 49)
		m.RequestKey[0] = 2
		run("requestKey:x>=p", m, cl.blind, cl.pubEnc, false)
		run("clientKey:short", req, cl.blind, cl.pubEnc[:40], false)
		run("clientKey:nil", req, cl.blind, nil, false)
		for _, n := range []int{0, 1, 47, 48, 95, 97, 192} {
			m = req
			m.Signature = r.Bytes(n)
			run("sig:length", m, cl.blind, cl.pubEnc, false)
		}
		m = req
		m.Signature = make([]byte, 96)
		run("sig:zero", m, cl.blind, cl.pubEnc, false)
		// (r, N-s) twin: a different signature that also verifies — must be accepted (it is authentic)
		N := elliptic.P384().Params().N
		s := new(big.Int).SetBytes(req.Signature[48:])
		tw := append([]byte{}, req.Signature...)
		new(big.Int).Sub(N, s).FillBytes(tw[48:])
		m.Signature = tw
		run("sig:twin", m, cl.blind, cl.pubEnc, true)
		// s + N, r + N do not fit 48 bytes; r = 0
		m.Signature = append(make([]byte, 48), req.Signature[48:]...)
		run("sig:r=0", m, cl.blind, cl.pubEnc, false)
	}
}
