package main

import (
	"bytes"
	"crypto"
	"encoding/hex"
	"encoding/json"
	"fmt"
	"math/big"
	"os"
	"path/filepath"
	"strconv"
	"strings"

	"github.com/cloudflare/circl/blindsign/blindrsa"
	"github.com/cloudflare/circl/group"
	"github.com/cloudflare/circl/oprf"
	"github.com/cloudflare/pat-go/tokens"
	"github.com/cloudflare/pat-go/tokens/batched"
	"github.com/cloudflare/pat-go/tokens/type1"
	"github.com/cloudflare/pat-go/tokens/type2"
	"github.com/cloudflare/pat-go/tokens/type5"
	"github.com/cloudflare/pat-go/util"
)

type rustIssuance struct {
	Type      string `json:"type"`
	SkS       string `json:"skS"`
	PkS       string `json:"pkS"`
	Challenge string `json:"token_challenge"`
	Nonce     string `json:"nonce"`
	Blind     string `json:"blind"`
	Salt      string `json:"salt"`
	Token     string `json:"token"`
}
type rustVector struct {
	Issuance      []rustIssuance `json:"issuance"`
	TokenRequest  string         `json:"token_request"`
	TokenResponse string         `json:"token_response"`
}

func loadRustVectors() []rustVector {
	repo := os.Getenv("VERIF_REPO")
	if repo == "" {
		repo = "/repo"
	}
	b, err := os.ReadFile(filepath.Join(repo, "tokens/batched/batched-issuance-test-vectors-rust.json"))
	must(err)
	var v []rustVector
	must(json.Unmarshal(b, &v))
	return v
}

func unh(s string) []byte { b, err := hex.DecodeString(s); must(err); return b }

// c11.vector <index> <expected request> <expected tokens>: replay one Rust vector through the
// deterministic entry points and through the decoders; the model side is the vector itself.
func c11Vector(c *Ctx, a []string) string {
	idx, _ := strconv.Atoi(a[0])
	v := loadRustVectors()[idx]
	var reqs []tokens.TokenRequestWithDetails
	type fin func([]byte) (tokens.Token, error)
	var fins []fin
	var issuers []batched.Issuer
	for k, is := range v.Issuance {
		switch is.Type {
		case "0001":
			sk := util.MustUnmarshalPrivateOPRFKey(unh(is.SkS))
			iss := type1.NewBasicPrivateIssuer(sk)
			st, err := type1.NewBasicPrivateClient().CreateTokenRequestWithBlind(unh(is.Challenge), unh(is.Nonce), iss.TokenKeyID(), iss.TokenKey(), unh(is.Blind))
			if err != nil {
				return "err-create"
			}
			reqs = append(reqs, st.Request())
			fins = append(fins, st.FinalizeToken)
			ad := newAd1(c.Seed, fmt.Sprintf("v%d-%d", idx, k), nil)
			ad.i1, ad.keyID = iss, iss.TokenKeyID()
			ad.eval = func(r tokens.TokenRequest) ([]byte, error) { return iss.Evaluate(r.(*type1.BasicPrivateTokenRequest)) }
			issuers = append(issuers, ad)
		case "0002":
			sk := util.MustUnmarshalPrivateKey(unh(is.SkS))
			iss := type2.NewBasicPublicIssuer(sk)
			st, err := type2.NewBasicPublicClient().CreateTokenRequestWithBlind(unh(is.Challenge), unh(is.Nonce), iss.TokenKeyID(), iss.TokenKey(), unh(is.Blind), unh(is.Salt))
			if err != nil {
				return "err-create"
			}
			reqs = append(reqs, st.Request())
			fins = append(fins, st.FinalizeToken)
			ad := newAd2(c.Seed, fmt.Sprintf("v%d-%d", idx, k), 0)
			ad.i2, ad.keyID = iss, iss.TokenKeyID()
			ad.eval = func(r tokens.TokenRequest) ([]byte, error) { return iss.Evaluate(r.(*type2.BasicPublicTokenRequest)) }
			issuers = append(issuers, ad)
		}
	}
	br, err := batched.NewBasicClient().CreateTokenRequest(reqs)
	if err != nil {
		return "err-batch"
	}
	wire := br.Marshal()
	// through the decoder: the Rust encoding must decode to the same requests
	dec := &batched.BatchedTokenRequest{}
	if !dec.Unmarshal(unh(v.TokenRequest)) {
		return "err-decode-vector-request"
	}
	if !bytes.Equal(dec.Marshal(), wire) {
		return "err-vector-request-redecodes-differently"
	}
	// the Rust response through the response decoder and the clients' finalizers
	rs, err := batched.UnmarshalBatchedTokenResponses(unh(v.TokenResponse))
	if err != nil || len(rs) != len(fins) {
		return "err-decode-vector-response"
	}
	var toks [][]byte
	for k, f := range fins {
		t, err := f(rs[k])
		if err != nil {
			return "err-finalize-vector-response"
		}
		toks = append(toks, t.Marshal())
	}
	// and our own issuer's response finalizes to the same tokens
	out, err := batched.NewBasicBatchedIssuer(issuers...).EvaluateBatch(dec)
	if err != nil {
		return "err-evaluate"
	}
	rs2, err := batched.UnmarshalBatchedTokenResponses(out)
	if err != nil || len(rs2) != len(fins) {
		return "err-own-response"
	}
	for k, f := range fins {
		t, err := f(rs2[k])
		if err != nil || !bytes.Equal(t.Marshal(), toks[k]) {
			return "err-own-response-token-differs"
		}
	}
	return "ok req=" + hxv(wire) + " toks=" + hxList(toks)
}

func runC11(c *Ctx) {
	r := NewRng(c.Seed, "c11")
	// ---- shipped interop vectors ----
	for i, v := range loadRustVectors() {
		var toks [][]byte
		for _, is := range v.Issuance {
			toks = append(toks, unh(is.Token))
		}
		out := c.Run("c11.vector", strconv.Itoa(i), hx(unh(v.TokenRequest)), hxList(toks))
		c.Count("vector")
		c.Direct(strings.HasPrefix(out, "ok "), "Rust interop vector not reproduced", map[string]any{"vector": i, "impl": out})
	}
	// ---- fixed blinds: reproducible, and the token ignores the blind ----
	n := c.Pick(25, 600)
	for i := 0; i < n; i++ {
		challenge, nonce := r.Bytes(r.IntN(60)), r.Bytes(32)
		keyseed := []byte(fmt.Sprintf("c11-key-%d", i%5))
		// type 1: four blinds incl. 1 and N-1 and a leading-zero one
		sk := oprfKey(oprf.SuiteP384, keyseed)
		pkEnc, _ := sk.Public().MarshalBinary()
		kid := sha256b(pkEnc)
		input := tokenInputRef(1, nonce, challenge, kid)
		prf, _ := oprf.NewVerifiableServer(oprf.SuiteP384, sk).FullEvaluate(input)
		one := group.P384.NewScalar().SetUint64(1)
		minus1 := group.P384.NewScalar().Neg(one)
		small := group.P384.NewScalar().SetUint64(uint64(2 + r.IntN(1000)))
		var toks []string
		for bi, bs := range []group.Scalar{group.P384.RandomNonZeroScalar(theRand), one, minus1, small} {
			blind, _ := bs.MarshalBinary()
			_, evr, err := oprf.NewVerifiableClient(oprf.SuiteP384, sk.Public()).DeterministicBlind([][]byte{input}, []oprf.Blind{bs})
			must(err)
			blinded, _ := evr.Elements[0].MarshalBinaryCompress()
			args := []string{hx(challenge), hx(nonce), "1", hx(kid), hx(blinded), hx(prf), hx(keyseed), hx(blind)}
			o1 := c.Run("c01.t1", args...)
			o2 := c.Run("c01.t1", args...)
			c.Count(fmt.Sprintf("t1:blind%d", bi))
			c.Direct(o1 == o2 && strings.HasPrefix(o1, "ok "), "type-1 issuance with a fixed blind is not reproducible", map[string]any{"blind": hx(blind), "first": o1, "second": o2})
			// the token is the one of (key, challenge, nonce): it carries that nonce and verifies, whatever the caller did with its buffers since
			if tb := unhx(strings.TrimPrefix(tokField(o1), "tok=")); strings.HasPrefix(o1, "ok ") {
				c.Direct(len(tb) == 98+48 && bytes.Equal(tb[2:34], nonce) && bytes.Equal(tb[66:98], kid) && strings.Contains(o1, "verify=1"),
					"type-1 token does not carry the request's nonce and key id or does not verify", map[string]any{"nonce": hx(nonce), "impl": o1})
			}
			toks = append(toks, tokField(o1))
		}
		c.Direct(allEq(toks), "type-1 token depends on the blind", map[string]any{"tokens": toks})
		// type 2: two blinds, same salt
		rk := rsaKey(i % 4)
		spki, _ := util.MarshalTokenKeyPSSOID(&rk.PublicKey)
		kid2 := sha256b(spki)
		input2 := tokenInputRef(2, nonce, challenge, kid2)
		salt := r.Bytes(48)
		sig := pssSign(rk, input2, salt)
		toks = nil
		for bi := 0; bi < 3; bi++ {
			b2 := r.Bytes(256)
			b2[0] &= 0x3f
			if bi == 1 {
				b2 = append(make([]byte, 255), 1) // blind = 1
			}
			if bi == 2 {
				b2 = append(make([]byte, 200), r.Bytes(56)...) // leading zeros
			}
			bm, _, err := blindrsa.NewVerifier(&rk.PublicKey, crypto.SHA384).FixedBlind(input2, b2, salt)
			if err != nil {
				continue
			}
			args := []string{hx(challenge), hx(nonce), "1", hx(kid2), hx(bm), hx(sig), strconv.Itoa(i % 4), hx(b2), hx(salt)}
			o1 := c.Run("c01.t2", args...)
			o2 := c.Run("c01.t2", args...)
			c.Count(fmt.Sprintf("t2:blind%d", bi))
			c.Direct(o1 == o2 && strings.HasPrefix(o1, "ok "), "type-2 issuance with fixed blind and salt is not reproducible", map[string]any{"blind": hx(b2), "first": o1, "second": o2})
			toks = append(toks, tokField(o1))
		}
		c.Direct(allEq(toks), "type-2 token depends on the blind", map[string]any{"tokens": toks})
		// blinds the key cannot use (0, N, N+1, all ones, a multiple of a prime factor): the blind-RSA library refuses them,
		// and so must the client — never a request built from some other blind
		for bi, bv := range []*big.Int{big.NewInt(0), rk.N, new(big.Int).Add(rk.N, big.NewInt(1)), new(big.Int).Sub(new(big.Int).Lsh(big.NewInt(1), 2048), big.NewInt(1)), rk.Primes[0], new(big.Int).Lsh(rk.Primes[1], 3)} {
			b2 := bv.FillBytes(make([]byte, 257))[1:]
			if bv.BitLen() > 2048 {
				b2 = bv.Bytes()
			}
			if _, _, err := blindrsa.NewVerifier(&rk.PublicKey, crypto.SHA384).FixedBlind(input2, b2, salt); err == nil {
				continue
			}
			args := []string{hx(challenge), hx(nonce), "1", hx(kid2), "-", "-", strconv.Itoa(i % 4), hx(b2), hx(salt)}
			o := c.Run("c11.t2refuse", args...)
			c.Count(fmt.Sprintf("t2:unusable-blind%d", bi))
			c.Direct(o == "err-create", "a blind the key cannot use was not refused", map[string]any{"blind": hx(b2), "impl": o})
		}
		// salts of unusual length (empty, short, long): whatever the outcome is, it is the same under every blind
		if i%5 == 0 {
			for _, sl := range []int{0, 1, 47, 49, 64} {
				osalt := r.Bytes(sl)
				var outs []string
				for bi := 0; bi < 2; bi++ {
					b2 := r.Bytes(256)
					b2[0] &= 0x3f
					out := c.Op(fmt.Sprintf("c03.probe c11.t2salt %d %s %s", i%4, hx(osalt), hx(b2)), func() string {
						iss := type2.NewBasicPublicIssuer(rk)
						st, err := type2.NewBasicPublicClient().CreateTokenRequestWithBlind(append([]byte{}, challenge...), append([]byte{}, nonce...), iss.TokenKeyID(), iss.TokenKey(), b2, append([]byte{}, osalt...))
						if err != nil {
							outs = append(outs, "err-create")
							return "-"
						}
						resp, err := iss.Evaluate(st.Request())
						if err != nil {
							outs = append(outs, "err-evaluate")
							return "-"
						}
						t, err := st.FinalizeToken(resp)
						if err != nil {
							outs = append(outs, "err-finalize")
							return "-"
						}
						outs = append(outs, "tok="+hxv(t.Marshal()))
						return "-"
					})
					_ = out
				}
				c.Count(fmt.Sprintf("t2:salt-len-%d", sl))
				c.Direct(len(outs) == 2 && outs[0] == outs[1], "type-2 outcome for one (key, challenge, nonce, salt) differs between two blinds",
					map[string]any{"salt": hx(osalt), "outcomes": outs})
			}
		}
		// type 5: two blind vectors
		sk5 := oprfKey(oprf.SuiteRistretto255, keyseed)
		pk5, _ := sk5.Public().MarshalBinary()
		kid5 := sha256b(pk5)
		nTok := 1 + i%3
		var nonces, inputs, prfs [][]byte
		for k := 0; k < nTok; k++ {
			nk := r.Bytes(32)
			nonces = append(nonces, nk)
			in := tokenInputRef(5, nk, challenge, kid5)
			inputs = append(inputs, in)
			p, _ := oprf.NewVerifiableServer(oprf.SuiteRistretto255, sk5).FullEvaluate(in)
			prfs = append(prfs, p)
		}
		toks = nil
		for bi := 0; bi < 2; bi++ {
			var blinds, blindeds [][]byte
			var bs []oprf.Blind
			for k := 0; k < nTok; k++ {
				s := group.Ristretto255.RandomNonZeroScalar(theRand)
				if bi == 1 && k == 0 {
					s = group.Ristretto255.NewScalar().SetUint64(1)
				}
				if bi == 1 && k == 1 {
					// a canonical scalar at the top of the range: 2^252 + 1 (the order is 2^252 + 2774…), or order − 1
					enc := make([]byte, 32)
					enc[0], enc[31] = 1, 0x10
					if i%2 == 0 {
						s = group.Ristretto255.NewScalar().Neg(group.Ristretto255.NewScalar().SetUint64(1))
					} else {
						must(s.UnmarshalBinary(enc))
					}
				}
				sb, _ := s.MarshalBinary()
				blinds = append(blinds, sb)
				bs = append(bs, s)
			}
			_, ev5, err := oprf.NewVerifiableClient(oprf.SuiteRistretto255, sk5.Public()).DeterministicBlind(inputs, bs)
			must(err)
			for _, e := range ev5.Elements {
				eb, _ := e.MarshalBinaryCompress()
				blindeds = append(blindeds, eb)
			}
			args := []string{hx(challenge), hxList(nonces), "1", hx(kid5), hxList(blindeds), hxList(prfs), hx(keyseed), hxList(blinds)}
			o1 := c.Run("c01.t5", args...)
			o2 := c.Run("c01.t5", args...)
			c.Count(fmt.Sprintf("t5:blinds%d", bi))
			c.Direct(o1 == o2 && strings.HasPrefix(o1, "ok "), "type-5 issuance with fixed blinds is not reproducible", map[string]any{"first": o1, "second": o2})
			wantReq := append(append([]byte{0, 5, kid5[31]}, refEnc(uint64(32*nTok))...), bytes.Join(blindeds, nil)...)
			c.Direct(strings.Contains(o1, " req="+hxv(wantReq)+" ") || strings.HasSuffix(o1, " req="+hxv(wantReq)) || strings.Contains(o1, "req="+hxv(wantReq)),
				"type-5 request is not the blinding of each token input with its own supplied blind", map[string]any{"blinds": hxList(blinds), "impl": o1, "expected_request": hx(wantReq)})
			toks = append(toks, tokField(o1))
		}
		c.Direct(allEq(toks), "type-5 tokens depend on the blinds", map[string]any{"tokens": toks})
	}
	// ---- purity across histories and schedules ----
	for k := 0; k < c.Pick(6, 80); k++ {
		nj := 3 + k%6
		o := c.Run("c11.hist", strconv.Itoa(k), strconv.Itoa(nj))
		c.Count("history")
		c.Direct(o == "same", "issuance with fixed blinds is not a pure function of its arguments: "+o, map[string]any{"history": k, "jobs": nj})
	}
	for k := 0; k < c.Pick(3, 40); k++ {
		nj := c.Pick(48, 96)
		o := c.Run("c11.par", strconv.Itoa(k), strconv.Itoa(nj))
		c.Count("concurrent")
		c.Direct(o == "same", "issuance with fixed blinds is not a pure function of its arguments: "+o, map[string]any{"round": k, "jobs": nj})
	}
}

// c11Job is one issuance with caller-supplied blinds; flow() runs it alone, and the history and
// concurrent variants run the same creations and finalizations in other orders.
type c11Job struct {
	ty        int
	challenge []byte
	nonces    [][]byte
	blinds    [][]byte
	salt      []byte
}

type c11World struct {
	i1  *type1.BasicPrivateIssuer
	i2  *type2.BasicPublicIssuer
	i5  *type5.BatchedPrivateIssuer
	pk1 []byte
	pk5 []byte
}

type c11Pending struct {
	req string
	fin func() (string, error)
	// late: the same arguments again, the request encoded only after the issuer has evaluated it (the order the
	// repository's vector generator uses)
	late func() string
}

// create builds the request state (client side only) and returns its encoding and a closure that
// evaluates and finalizes later.
func (w *c11World) create(j c11Job) (c11Pending, error) {
	switch j.ty {
	case 1:
		pk := new(oprf.PublicKey)
		must(pk.UnmarshalBinary(oprf.SuiteP384, w.pk1))
		st, err := type1.NewBasicPrivateClient().CreateTokenRequestWithBlind(j.challenge, j.nonces[0], w.i1.TokenKeyID(), pk, j.blinds[0])
		if err != nil {
			return c11Pending{}, err
		}
		return c11Pending{hxv(st.Request().Marshal()), func() (string, error) {
			resp, err := w.i1.Evaluate(st.Request())
			if err != nil {
				return "", err
			}
			t, err := st.FinalizeToken(resp)
			return hxv(t.Marshal()), err
		}, func() string {
			st2, err := type1.NewBasicPrivateClient().CreateTokenRequestWithBlind(j.challenge, j.nonces[0], w.i1.TokenKeyID(), pk, j.blinds[0])
			if err != nil {
				return "err"
			}
			w.i1.Evaluate(st2.Request())
			return hxv(st2.Request().Marshal())
		}}, nil
	case 2:
		st, err := type2.NewBasicPublicClient().CreateTokenRequestWithBlind(j.challenge, j.nonces[0], w.i2.TokenKeyID(), w.i2.TokenKey(), j.blinds[0], j.salt)
		if err != nil {
			return c11Pending{}, err
		}
		return c11Pending{hxv(st.Request().Marshal()), func() (string, error) {
			resp, err := w.i2.Evaluate(st.Request())
			if err != nil {
				return "", err
			}
			t, err := st.FinalizeToken(resp)
			return hxv(t.Marshal()), err
		}, func() string {
			st2, err := type2.NewBasicPublicClient().CreateTokenRequestWithBlind(j.challenge, j.nonces[0], w.i2.TokenKeyID(), w.i2.TokenKey(), j.blinds[0], j.salt)
			if err != nil {
				return "err"
			}
			w.i2.Evaluate(st2.Request())
			return hxv(st2.Request().Marshal())
		}}, nil
	default:
		pk := new(oprf.PublicKey)
		must(pk.UnmarshalBinary(oprf.SuiteRistretto255, w.pk5))
		st, err := type5.NewBatchedPrivateClient().CreateTokenRequestWithBlinds(j.challenge, j.nonces, w.i5.TokenKeyID(), pk, j.blinds)
		if err != nil {
			return c11Pending{}, err
		}
		return c11Pending{hxv(st.Request().Marshal()), func() (string, error) {
			resp, err := w.i5.Evaluate(st.Request())
			if err != nil {
				return "", err
			}
			ts, err := st.FinalizeTokens(resp)
			out := ""
			for _, t := range ts {
				out += hxv(t.Marshal()) + ","
			}
			return out, err
		}, func() string {
			st2, err := type5.NewBatchedPrivateClient().CreateTokenRequestWithBlinds(j.challenge, j.nonces, w.i5.TokenKeyID(), pk, j.blinds)
			if err != nil {
				return "err"
			}
			w.i5.Evaluate(st2.Request())
			return hxv(st2.Request().Marshal())
		}}, nil
	}
}

func (w *c11World) alone(j c11Job) string {
	p, err := w.create(j)
	if err != nil {
		return "err-create"
	}
	t, err := p.fin()
	if err != nil {
		return "err-finalize " + p.req
	}
	if l := p.late(); l != p.req {
		return "err-request-differs-when-encoded-after-evaluation " + p.req + " " + l
	}
	return p.req + " " + t
}

func newC11World(tag string) *c11World {
	w := &c11World{}
	w.i1 = type1.NewBasicPrivateIssuer(oprfKey(oprf.SuiteP384, []byte("c11w1"+tag)))
	w.i2 = type2.NewBasicPublicIssuer(rsaKey(1))
	w.i5 = type5.NewBatchedPrivateIssuer(oprfKey(oprf.SuiteRistretto255, []byte("c11w5"+tag)))
	w.pk1, _ = oprfKey(oprf.SuiteP384, []byte("c11w1"+tag)).Public().MarshalBinary()
	w.pk5, _ = oprfKey(oprf.SuiteRistretto255, []byte("c11w5"+tag)).Public().MarshalBinary()
	return w
}

func c11Jobs(r *Rng, n int) []c11Job {
	var js []c11Job
	for i := 0; i < n; i++ {
		j := c11Job{ty: []int{1, 2, 5}[i%3], challenge: r.Bytes(r.IntN(40))}
		switch j.ty {
		case 1:
			b, _ := group.P384.RandomNonZeroScalar(theRand).MarshalBinary()
			j.nonces, j.blinds = [][]byte{r.Bytes(32)}, [][]byte{b}
		case 2:
			b := r.Bytes(256)
			b[0] &= 0x3f
			j.nonces, j.blinds, j.salt = [][]byte{r.Bytes(32)}, [][]byte{b}, r.Bytes(48)
		default:
			for k := 0; k < 1+r.IntN(3); k++ {
				b, _ := group.Ristretto255.RandomNonZeroScalar(theRand).MarshalBinary()
				j.nonces, j.blinds = append(j.nonces, r.Bytes(32)), append(j.blinds, b)
			}
		}
		js = append(js, j)
	}
	return js
}

func init() {
	// c11.hist <k> <n>: n issuances created first (every state alive at once), finalized afterwards in another order —
	// each must give the request and tokens it gives when run alone
	replayers["c11.hist"] = func(c *Ctx, a []string) string {
		n, _ := strconv.Atoi(a[1])
		r := NewRng(c.Seed, "c11.hist"+a[0])
		reseedRand(c.Seed, "c11.hist"+a[0])
		w := newC11World(a[0])
		js := c11Jobs(r, n)
		want := make([]string, n)
		for i, j := range js {
			want[i] = w.alone(j)
		}
		ps := make([]c11Pending, n)
		for i, j := range js {
			p, err := w.create(j)
			if err != nil {
				return fmt.Sprintf("job %d (type %d): create failed in the history", i, j.ty)
			}
			ps[i] = p
		}
		for _, i := range r.Perm(n) {
			t, err := ps[i].fin()
			got := ps[i].req + " " + t
			if err != nil {
				got = "err-finalize " + ps[i].req
			}
			if got != want[i] {
				return fmt.Sprintf("job %d (type %d) differs when other requests were created before it was finalized: %s vs alone %s", i, js[i].ty, trunc(got), trunc(want[i]))
			}
		}
		return "same"
	}
	// c11.t2refuse: c01.t2 with a blind that the blind-RSA library refuses (oracle: it did, in the stream)
	replayers["c11.t2refuse"] = func(c *Ctx, a []string) string { return replayers["c01.t2"](c, a) }
	// c11.par <k> <n>: the same issuances run from concurrent goroutines (shared token keys, per-call arguments)
	replayers["c11.par"] = func(c *Ctx, a []string) string {
		n, _ := strconv.Atoi(a[1])
		r := NewRng(c.Seed, "c11.par"+a[0])
		reseedRand(c.Seed, "c11.par"+a[0])
		w := newC11World(a[0])
		js := c11Jobs(r, n)
		want := make([]string, n)
		for i, j := range js {
			want[i] = w.alone(j)
		}
		// request creation alone, many at once per token type (short calls overlap only when issued back to back)
		byType := map[int][]int{}
		for i, j := range js {
			byType[j.ty] = append(byType[j.ty], i)
		}
		for _, ty := range []int{2, 1, 5} {
			ix := byType[ty]
			reps := 12
			reqs := parMap(len(ix)*reps, func(k int) (out string) {
				defer func() {
					if e := recover(); e != nil {
						out = fmt.Sprint("panic: ", e)
					}
				}()
				p, err := w.create(js[ix[k%len(ix)]])
				if err != nil {
					return "err-create"
				}
				return p.req
			})
			for k, q := range reqs {
				i := ix[k%len(ix)]
				if !strings.HasPrefix(want[i], q+" ") {
					return fmt.Sprintf("job %d (type %d): the request differs when created concurrently with others: %s vs alone %s", i, ty, trunc(q), trunc(want[i]))
				}
			}
		}
		got := parMap(n, func(i int) (out string) {
			defer func() {
				if e := recover(); e != nil {
					out = fmt.Sprint("panic: ", e)
				}
			}()
			return w.alone(js[i])
		})
		for i := range js {
			if got[i] != want[i] {
				return fmt.Sprintf("job %d (type %d) differs when run concurrently with others: %s vs alone %s", i, js[i].ty, trunc(got[i]), trunc(want[i]))
			}
		}
		return "same"
	}
}

func tokField(out string) string {
	for _, f := range strings.Fields(out) {
		if strings.HasPrefix(f, "tok=") || strings.HasPrefix(f, "toks=") {
			return f
		}
	}
	return out
}

func allEq(xs []string) bool {
	for _, x := range xs {
		if x != xs[0] {
			return false
		}
	}
	return true
}
