package main

import (
	"bytes"
	"crypto"
	stdecdsa "crypto/ecdsa"
	stded "crypto/ed25519"
	"crypto/elliptic"
	crand "crypto/rand"
	"crypto/sha512"
	"encoding/binary"
	"errors"
	"fmt"
	"github.com/cloudflare/pat-go/tokens/type3"
	"io"
	"math/big"
	"runtime"
	"strings"

	"github.com/cloudflare/circl/expander"
	"github.com/cloudflare/circl/group"
	"github.com/cloudflare/pat-go/ecdsa"
	"github.com/cloudflare/pat-go/ed25519"
	"golang.org/x/crypto/cryptobyte"
	"golang.org/x/crypto/cryptobyte/asn1"
)

var curves = map[string]elliptic.Curve{"P-224": elliptic.P224(), "P-256": elliptic.P256(), "P-384": elliptic.P384(), "P-521": elliptic.P521()}
var curveNames = []string{"P-224", "P-256", "P-384", "P-521"}

func bigHex(x *big.Int) string {
	if x.Sign() < 0 {
		return "-" + hxv(new(big.Int).Neg(x).Bytes()) + "."
	}
	if x.Sign() == 0 {
		return "00"
	}
	return hxv(x.Bytes())
}

func parseBig(s string) *big.Int {
	neg := strings.HasPrefix(s, "-")
	s = strings.TrimSuffix(strings.TrimPrefix(s, "-"), ".")
	x := new(big.Int).SetBytes(unhx(s))
	if neg {
		x.Neg(x)
	}
	return x
}

func init() {
	props["C12"] = runC12
	props["C13"] = runC13
	props["C14"] = runC14
	props["C15"] = runC15
	// c12.blind <curve> <pkx> <pky> <blind key bytes> <ctx>; c12.unblind likewise
	replayers["c12.blind"] = func(c *Ctx, a []string) string {
		cv := curves[a[0]]
		kb := unhx(a[3])
		bk, _ := ecdsa.CreateKey(cv, kb)
		for i := range kb { // the bytes a key was created from are the caller's to reuse
			kb[i] ^= 0x6d
		}
		// the context is handed over in one long-lived buffer that the caller overwrites for the next call
		c12ctxBuf = append(c12ctxBuf[:0], unhx(a[4])...)
		p, err := ecdsa.BlindPublicKeyWithContext(cv, &ecdsa.PublicKey{Curve: cv, X: parseBig(a[1]), Y: parseBig(a[2])}, bk, c12ctxBuf)
		if err != nil {
			return "err"
		}
		return "ok " + bigHex(p.X) + " " + bigHex(p.Y)
	}
	replayers["c12.unblind"] = func(c *Ctx, a []string) string {
		cv := curves[a[0]]
		kb := unhx(a[3])
		bk, _ := ecdsa.CreateKey(cv, kb)
		for i := range kb {
			kb[i] ^= 0x6d
		}
		c12ctxBuf = append(c12ctxBuf[:0], unhx(a[4])...)
		p, err := ecdsa.UnblindPublicKeyWithContext(cv, &ecdsa.PublicKey{Curve: cv, X: parseBig(a[1]), Y: parseBig(a[2])}, bk, c12ctxBuf)
		if err != nil {
			return "err"
		}
		return "ok " + bigHex(p.X) + " " + bigHex(p.Y)
	}
	// c13.verify <curve> <pkx> <pky> <digest> <r> <s>
	replayers["c13.verify"] = func(c *Ctx, a []string) string {
		cv := curves[a[0]]
		pk := &ecdsa.PublicKey{Curve: cv, X: parseBig(a[1]), Y: parseBig(a[2])}
		d, rr, ss := unhx(a[3]), parseBig(a[4]), parseBig(a[5])
		ok := ecdsa.Verify(pk, d, rr, ss)
		// the same objects again: the arguments are the caller's, unchanged, and the verdict is a function of them
		if rr.Cmp(parseBig(a[4])) != 0 || ss.Cmp(parseBig(a[5])) != 0 || pk.X.Cmp(parseBig(a[1])) != 0 || pk.Y.Cmp(parseBig(a[2])) != 0 || !bytes.Equal(d, unhx(a[3])) {
			return "arguments-changed"
		}
		if ecdsa.Verify(pk, d, rr, ss) != ok {
			return "verdict-changed-on-second-call"
		}
		return b2s(ok)
	}
	// c13.der <curve> <pkx> <pky> <digest> <sig bytes>
	replayers["c13.der"] = func(c *Ctx, a []string) string {
		cv := curves[a[0]]
		ok := ecdsa.VerifyASN1(&ecdsa.PublicKey{Curve: cv, X: parseBig(a[1]), Y: parseBig(a[2])}, unhx(a[3]), unhx(a[4]))
		return b2s(ok)
	}
	// c13.entropy <curve> <fail position | -1> <chunk>: Sign and GenerateKey with a reader that fails after n bytes
	replayers["c13.entropy"] = func(c *Ctx, a []string) string {
		cv := curves[a[0]]
		var pos, chunk int
		fmt.Sscanf(a[1], "%d", &pos)
		fmt.Sscanf(a[2], "%d", &chunk)
		sk, _ := ecdsa.CreateKey(cv, bytes.Repeat([]byte{7}, 20))
		mode := 0
		if len(a) > 3 {
			fmt.Sscanf(a[3], "%d", &mode)
		}
		rd := &failReader{limit: pos, chunk: chunk, mode: mode}
		r, s, err := ecdsa.Sign(rd, sk, bytes.Repeat([]byte{1}, 32))
		signRes := "sig"
		if err != nil {
			signRes = "err"
			if r != nil || s != nil {
				signRes = "err+sig"
			}
		}
		if pos == 32 && signRes != "err+sig" {
			// MaybeReadByte's coin decides between 32 and 33 bytes
			rd2 := &failReader{limit: pos, chunk: chunk, mode: mode}
			k, err2 := ecdsa.GenerateKey(cv, rd2)
			genRes := "key"
			if err2 != nil {
				genRes = "err"
				if k != nil {
					genRes = "err+key"
				}
			}
			return fmt.Sprintf("sign=coin gen=%s(%d)", genRes, rd2.served)
		}
		consumedSign := rd.served
		rd2 := &failReader{limit: pos, chunk: chunk, mode: mode}
		k, err := ecdsa.GenerateKey(cv, rd2)
		genRes := "key"
		if err != nil {
			genRes = "err"
			if k != nil {
				genRes = "err+key"
			}
		}
		// MaybeReadByte makes Sign consume 32 or 33 bytes: report the bucket, not the coin
		sb := "lt32"
		if consumedSign >= 32 {
			sb = "ge32"
		}
		return fmt.Sprintf("sign=%s(%s) gen=%s(%d)", signRes, sb, genRes, rd2.served)
	}
	// c14.* : Ed25519 fork
	replayers["c14.key"] = func(c *Ctx, a []string) string {
		return "ok " + hxv(ed25519.NewKeyFromSeed(unhx(a[0])))
	}
	replayers["c14.sign"] = func(c *Ctx, a []string) string {
		return "ok " + hxv(ed25519.Sign(ed25519.NewKeyFromSeed(unhx(a[0])), unhx(a[1])))
	}
	replayers["c14.verify"] = func(c *Ctx, a []string) string {
		return b2s(ed25519.Verify(unhx(a[0]), unhx(a[1]), unhx(a[2])))
	}
	replayers["c14.genkey"] = func(c *Ctx, a []string) string {
		var pos, chunk int
		fmt.Sscanf(a[0], "%d", &pos)
		fmt.Sscanf(a[1], "%d", &chunk)
		mode := 0
		if len(a) > 2 {
			fmt.Sscanf(a[2], "%d", &mode)
		}
		rd := &failReader{limit: pos, chunk: chunk, mode: mode}
		pk, sk, err := ed25519.GenerateKey(rd)
		if err != nil {
			if pk != nil || sk != nil {
				return "err+key"
			}
			return fmt.Sprintf("err(%d)", rd.served)
		}
		// the public key is the caller's own copy: writing into it does not reach the private key
		for i := range pk {
			pk[i] ^= 0x99
		}
		return fmt.Sprintf("ok(%d) %s", rd.served, hxv(sk))
	}
	// scalar arithmetic of ed25519/internal/edwards25519 through the verif hooks
	replayers["c14.screduce"] = func(c *Ctx, a []string) string { return "ok " + hxv(ed25519.VerifScalarReduce(unhx(a[0]))) }
	replayers["c14.scmuladd"] = func(c *Ctx, a []string) string {
		return "ok " + hxv(ed25519.VerifScalarMulAdd(unhx(a[0]), unhx(a[1]), unhx(a[2])))
	}
	replayers["c14.sccanon"] = func(c *Ctx, a []string) string { return b2s(ed25519.VerifScalarCanonical(unhx(a[0]))) }
	// c15.* : Ed25519 key blinding
	// blind and context are handed over as adjacent parts of one caller buffer (blind = buf[:n], context = buf[n:])
	adjacent := func(blind, ctx []byte) ([]byte, []byte) {
		buf := append(append(make([]byte, 0, len(blind)+len(ctx)), blind...), ctx...)
		return buf[:len(blind)], buf[len(blind):]
	}
	replayers["c15.blind"] = func(c *Ctx, a []string) string {
		bl, cx := adjacent(unhx(a[1]), unhx(a[2]))
		p, err := ed25519.BlindPublicKeyWithContext(unhx(a[0]), bl, cx)
		if err != nil {
			return "err"
		}
		return "ok " + hxv(p)
	}
	replayers["c15.unblind"] = func(c *Ctx, a []string) string {
		bl, cx := adjacent(unhx(a[1]), unhx(a[2]))
		p, err := ed25519.UnblindPublicKeyWithContext(unhx(a[0]), bl, cx)
		if err != nil {
			return "err"
		}
		return "ok " + hxv(p)
	}
	replayers["c15.sign"] = func(c *Ctx, a []string) string {
		bl, cx := adjacent(unhx(a[2]), unhx(a[3]))
		return "ok " + hxv(ed25519.BlindKeySignWithContext(ed25519.NewKeyFromSeed(unhx(a[0])), unhx(a[1]), bl, cx))
	}
}

// failReader serves pseudo-random bytes in chunks of at most `chunk` (0 = unlimited) and fails
// once `limit` bytes have been served (limit < 0: never).
type failReader struct {
	limit, chunk, served int
	// mode%10: the error value (0 a custom error, 1 io.EOF, 2 io.ErrUnexpectedEOF);
	// mode/10 == 1: the read that reaches the limit exactly already reports the error together with its data
	mode int
}

func (f *failReader) err() error {
	switch f.mode % 10 {
	case 1:
		return io.EOF
	case 2:
		return io.ErrUnexpectedEOF
	}
	return errors.New("entropy source failed")
}

func (f *failReader) Read(p []byte) (int, error) {
	n := len(p)
	if f.chunk > 0 && n > f.chunk {
		n = f.chunk
	}
	if f.limit >= 0 && (f.served+n > f.limit || (f.mode/10 == 1 && f.served+n == f.limit)) {
		n = f.limit - f.served
		for i := 0; i < n; i++ {
			p[i] = byte(37*(f.served+i) + 11)
		}
		f.served += n
		return n, f.err()
	}
	for i := 0; i < n; i++ {
		p[i] = byte(37*(f.served+i) + 11)
	}
	f.served += n
	return n, nil
}

var _ io.Reader = (*failReader)(nil)

var c12ctxBuf = make([]byte, 0, 256)

func runC12(c *Ctx) {
	r := NewRng(c.Seed, "c12")
	n := c.Pick(12, 200)
	for _, cn := range curveNames {
		cv := curves[cn]
		N := cv.Params().N
		sz := (cv.Params().BitSize + 7) / 8
		for i := 0; i < n; i++ {
			dBytes := r.Bytes(sz)
			sk, _ := ecdsa.CreateKey(cv, new(big.Int).Mod(new(big.Int).SetBytes(dBytes), N).Bytes())
			var blind []byte
			switch i % 5 {
			case 0:
				blind = r.Bytes(sz)
			case 1:
				blind = append([]byte{0, 0, 0}, r.Bytes(sz-5)...) // leading zeros
			case 2:
				blind = new(big.Int).Add(N, big.NewInt(int64(r.IntN(1000)))).Bytes() // >= N
			case 3:
				blind = r.Bytes(1 + r.IntN(8))
			default:
				blind = bytes.Repeat([]byte{0xff}, sz+3)
			}
			ctx := r.Bytes([]int{0, 1, 13, 40, 62, 64, 80, 96, 100, 127, 128, 129, 200, 1000}[(i+3*len(cn))%14])
			bk, _ := ecdsa.CreateKey(cv, blind)
			out := c.Run("c12.blind", cn, bigHex(sk.X), bigHex(sk.Y), hx(blind), hx(ctx))
			c.Count(fmt.Sprintf("%s:blind/%d", cn, i%5))
			in := map[string]any{"curve": cn, "d": hx(sk.D.Bytes()), "blind": hx(blind), "ctx": hx(ctx), "impl": out}
			bp, err := ecdsa.BlindPublicKeyWithContext(cv, &sk.PublicKey, bk, ctx)
			if !c.DirectOK(err == nil && strings.HasPrefix(out, "ok "), "blinding failed", in) {
				continue
			}
			// the blinding factor recomputed with circl's hash_to_field and the standard library's scalar multiplication
			// (from the bytes the blind key was created from, not from what CreateKey kept of them)
			if ref := refBlind(cn, sk.X, sk.Y, new(big.Int).SetBytes(blind), ctx); ref != nil {
				c.Direct(ref[0].Cmp(bp.X) == 0 && ref[1].Cmp(bp.Y) == 0,
					"blinded key is not pk × hash_to_field(XMD(curve hash, \"ECDSA Key Blind\"), blind-key bytes ‖ 0x00 ‖ context)", in)
			}
			// the same blind key straight afterwards with a context of the same length that differs in one byte
			if len(ctx) > 0 {
				ctx2 := append([]byte{}, ctx...)
				if i%2 == 0 {
					ctx2[len(ctx2)-1] ^= 1 << r.IntN(8) // the last byte: past any fixed-size buffer a long context may be cut to
				} else {
					ctx2[r.IntN(len(ctx2))] ^= 1 << r.IntN(8)
				}
				o2 := c.Run("c12.blind", cn, bigHex(sk.X), bigHex(sk.Y), hx(blind), hx(ctx2))
				if ref := refBlind(cn, sk.X, sk.Y, new(big.Int).SetBytes(blind), ctx2); ref != nil {
					c.Direct(o2 == "ok "+bigHex(ref[0])+" "+bigHex(ref[1]) && o2 != out, "blinded key for a second context (same blind key, same length) is not that of the second context",
						map[string]any{"curve": cn, "blind": hx(blind), "ctx1": hx(ctx), "ctx2": hx(ctx2), "first": out, "second": o2})
				}
			}
			c.Direct(bk.D.Cmp(new(big.Int).SetBytes(blind)) == 0 && sk.D.Cmp(new(big.Int).Mod(new(big.Int).SetBytes(dBytes), N)) == 0,
				"a key object handed to a blinding operation was changed by it", in)
			// unblind inverts blind
			c.Run("c12.unblind", cn, bigHex(bp.X), bigHex(bp.Y), hx(blind), hx(ctx))
			up, err := ecdsa.UnblindPublicKeyWithContext(cv, bp, bk, ctx)
			c.Direct(err == nil && up.X.Cmp(sk.X) == 0 && up.Y.Cmp(sk.Y) == 0, "unblinding does not invert blinding", in)
			// commutativity with a second blind
			blind2 := r.Bytes(sz)
			bk2, _ := ecdsa.CreateKey(cv, blind2)
			ctx2 := r.Bytes(5)
			p12, _ := ecdsa.BlindPublicKeyWithContext(cv, bp, bk2, ctx2)
			p2, _ := ecdsa.BlindPublicKeyWithContext(cv, &sk.PublicKey, bk2, ctx2)
			p21, _ := ecdsa.BlindPublicKeyWithContext(cv, p2, bk, ctx)
			c.Direct(p12.X.Cmp(p21.X) == 0 && p12.Y.Cmp(p21.Y) == 0, "two blindings do not commute", in)
			// changing blind or context changes the key; a blind and its residue mod N are different blinds
			if bv := new(big.Int).SetBytes(blind); bv.Cmp(N) >= 0 {
				bkr, _ := ecdsa.CreateKey(cv, new(big.Int).Mod(bv, N).Bytes())
				pr, _ := ecdsa.BlindPublicKeyWithContext(cv, &sk.PublicKey, bkr, ctx)
				c.Direct(pr.X.Cmp(bp.X) != 0, "a blind and its residue modulo the group order gave the same blinded key", in)
			}
			c.Direct(p2.X.Cmp(bp.X) != 0, "a different blind gave the same blinded key", in)
			pc, _ := ecdsa.BlindPublicKeyWithContext(cv, &sk.PublicKey, bk, append(append([]byte{}, ctx...), 1))
			c.Direct(pc.X.Cmp(bp.X) != 0, "a different context gave the same blinded key", in)
			// a blinded signature verifies under the blinded key (fork, stdlib, Lean) and not under the unblinded key
			digest := r.Bytes([]int{0, 20, 32, 48, 64, 100, 128}[i%7])
			rr, ss, err := ecdsa.BlindKeySignWithContext(theRand, sk, bk, digest, ctx)
			if !c.DirectOK(err == nil, "blinded signing failed", in) {
				continue
			}
			c.Run("c13.verify", cn, bigHex(bp.X), bigHex(bp.Y), hx(digest), bigHex(rr), bigHex(ss))
			c.Direct(ecdsa.Verify(bp, digest, rr, ss), "blinded signature does not verify under the blinded key (fork)", in)
			c.Direct(stdecdsa.Verify(&stdecdsa.PublicKey{Curve: cv, X: bp.X, Y: bp.Y}, digest, rr, ss), "blinded signature does not verify under the blinded key (crypto/ecdsa)", in)
			c.Direct(!ecdsa.Verify(&sk.PublicKey, digest, rr, ss), "blinded signature verifies under the unblinded key", in)
			c.Direct(bk.D.Cmp(new(big.Int).SetBytes(blind)) == 0, "the blind key object was changed by signing", in)
			c.Run("c13.verify", cn, bigHex(sk.X), bigHex(sk.Y), hx(digest), bigHex(rr), bigHex(ss))
		}
	}
}

// refBlind: independent Go reference for the blinded public key.
func refBlind(curve string, x, y, d *big.Int, ctx []byte) []*big.Int {
	var h crypto.Hash
	var L uint
	switch curve {
	case "P-224":
		h, L = crypto.SHA256, 32
	case "P-256":
		h, L = crypto.SHA256, 48
	case "P-384":
		h, L = crypto.SHA384, 72
	case "P-521":
		h, L = crypto.SHA512, 98
	}
	cv := curves[curve]
	msg := append(append(append([]byte{}, d.Bytes()...), 0), ctx...)
	var u [1]big.Int
	group.HashToField(u[:], msg, expander.NewExpanderMD(h, []byte("ECDSA Key Blind")), cv.Params().N, L)
	if u[0].Sign() == 0 {
		return nil
	}
	rx, ry := cv.ScalarMult(x, y, u[0].Bytes())
	return []*big.Int{rx, ry}
}

func derInt(x *big.Int) []byte {
	var b cryptobyte.Builder
	b.AddASN1BigInt(x)
	return b.BytesOrPanic()
}

func derSeq(body []byte) []byte {
	var b cryptobyte.Builder
	b.AddASN1(asn1.SEQUENCE, func(b *cryptobyte.Builder) { b.AddBytes(body) })
	return b.BytesOrPanic()
}

func runC13(c *Ctx) {
	r := NewRng(c.Seed, "c13")
	n := c.Pick(6, 120)
	for _, cn := range curveNames {
		cv := curves[cn]
		N := cv.Params().N
		sz := (cv.Params().BitSize + 7) / 8
		for i := 0; i < n; i++ {
			sk, _ := ecdsa.CreateKey(cv, new(big.Int).Mod(new(big.Int).SetBytes(r.Bytes(sz)), N).Bytes())
			std := &stdecdsa.PublicKey{Curve: cv, X: sk.X, Y: sk.Y}
			// every digest length class is reached on every curve also with six keys: the offset moves with the curve
			// and the seed; digests longer than the order get both a low and a high leading byte
			digLens := []int{0, 1, 20, 28, 32, 48, 64, 66, 100, 128}
			digest := r.Bytes(digLens[(i+int(c.Seed)+3*len(cn))%10])
			if i%3 == 1 {
				digest = r.Bytes([]int{sz, sz + 1, 2 * sz, 128}[(i/3)%4])
				digest[0] = []byte{0x00, 0x01, 0x7f, 0x80, 0xff}[(i/3+int(c.Seed))%5]
			}
			if i%13 == 5 {
				digest = bytes.Repeat([]byte{0xff}, 64)
			}
			rr, ss, err := ecdsa.Sign(theRand, sk, digest)
			must(err)
			ver := func(kind string, d []byte, x, y *big.Int) {
				out := c.Run("c13.verify", cn, bigHex(sk.X), bigHex(sk.Y), hx(d), bigHex(x), bigHex(y))
				c.Count(cn + ":" + kind)
				want := stdecdsa.Verify(std, d, x, y)
				c.Direct(out == b2s(want), "verdict differs from crypto/ecdsa", map[string]any{"curve": cn, "kind": kind, "pkx": bigHex(sk.X), "pky": bigHex(sk.Y), "digest": hx(d), "r": bigHex(x), "s": bigHex(y), "fork": out, "std": want})
			}
			ver("valid", digest, rr, ss)
			ver("twin", digest, rr, new(big.Int).Sub(N, ss))
			zero, one := big.NewInt(0), big.NewInt(1)
			specials := []*big.Int{zero, one, big.NewInt(-1), new(big.Int).Sub(N, one), N, new(big.Int).Add(N, one), new(big.Int).Add(rr, N), new(big.Int).Add(ss, N),
				new(big.Int).Neg(rr), new(big.Int).Neg(ss), new(big.Int).Lsh(one, uint(r.IntN(600))), new(big.Int).SetBytes(r.Bytes(sz)), new(big.Int).Sub(rr, N)}
			for _, x := range specials {
				ver("special-r", digest, x, ss)
				ver("special-s", digest, rr, x)
			}
			ver("special-both", digest, specials[r.IntN(len(specials))], specials[r.IntN(len(specials))])
			ver("swapped", digest, ss, rr)
			d2 := append([]byte{}, digest...)
			if len(d2) > 0 {
				d2[r.IntN(len(d2))] ^= 1 << r.IntN(8)
				ver("digest-flip", d2, rr, ss)
				ver("digest-trunc", digest[:len(digest)-1], rr, ss)
			}
			ver("digest-ext", append(append([]byte{}, digest...), 0), rr, ss)
			// std signatures verify here
			sr, sS, err := stdecdsa.Sign(realRand, &stdecdsa.PrivateKey{PublicKey: *std, D: sk.D}, digest)
			must(err)
			c.Direct(ecdsa.Verify(&sk.PublicKey, digest, sr, sS), "a crypto/ecdsa signature does not verify in the fork", map[string]any{"curve": cn})
			c.Direct(stdecdsa.Verify(std, digest, rr, ss), "a fork signature does not verify in crypto/ecdsa", map[string]any{"curve": cn})
			// ASN.1
			good := derSeq(append(derInt(rr), derInt(ss)...))
			asn := func(kind string, sig []byte) {
				out := c.Run("c13.der", cn, bigHex(sk.X), bigHex(sk.Y), hx(digest), hx(sig))
				c.Count(cn + ":der:" + kind)
				want := stdecdsa.VerifyASN1(std, digest, sig)
				c.Direct(out == b2s(want), "ASN.1 verdict differs from crypto/ecdsa", map[string]any{"curve": cn, "kind": kind, "sig": hx(sig), "fork": out, "std": want})
			}
			forkDer, err := ecdsa.SignASN1(theRand, sk, digest)
			must(err)
			// a signature handed out earlier keeps its contents while the next ones are made
			held := append([]byte{}, forkDer...)
			rr0, ss0 := new(big.Int).Set(rr), new(big.Int).Set(ss)
			for k := 0; k < 3; k++ {
				d3 := r.Bytes(32)
				_, err := ecdsa.SignASN1(theRand, sk, d3)
				must(err)
				_, _, err = ecdsa.Sign(theRand, sk, d3)
				must(err)
			}
			c.Direct(bytes.Equal(held, forkDer) && rr.Cmp(rr0) == 0 && ss.Cmp(ss0) == 0, "an earlier signature changed while later ones were made", map[string]any{"curve": cn})
			asn("fork-signed", forkDer)
			c.Direct(stdecdsa.VerifyASN1(std, digest, forkDer), "a fork ASN.1 signature does not verify in crypto/ecdsa", map[string]any{"curve": cn})
			asn("good", good)
			asn("trailing", append(append([]byte{}, good...), 0))
			asn("trailing-inside", derSeq(append(append(derInt(rr), derInt(ss)...), 0)))
			asn("long-length-form", append([]byte{0x30, 0x81, byte(len(good) - 2)}, good[2:]...))
			asn("leading-00-int", derSeq(append(append([]byte{2, byte(len(rr.Bytes()) + 2), 0, 0}, rr.Bytes()...), derInt(ss)...)))
			asn("negative-int", derSeq(append(derInt(new(big.Int).Neg(rr)), derInt(ss)...)))
			asn("one-int", derSeq(derInt(rr)))
			asn("three-ints", derSeq(append(append(derInt(rr), derInt(ss)...), derInt(ss)...)))
			asn("nested", derSeq(good))
			asn("indefinite", append([]byte{0x30, 0x80}, append(good[2:], 0, 0)...))
			asn("wrong-tag", append([]byte{0x31}, good[1:]...))
			asn("empty", []byte{})
			asn("zero-ints", derSeq([]byte{2, 1, 0, 2, 1, 0}))
			for k := 0; k < 6; k++ {
				m := append([]byte{}, good...)
				m[r.IntN(len(m))] ^= 1 << r.IntN(8)
				asn("bitflip", m)
			}
			asn("truncated", good[:r.IntN(len(good))])
		}
		// entropy failures at every position the calls consume, with short-read patterns
		maxPos := cv.Params().BitSize/8 + 8 + 2
		step := c.Pick(3, 1)
		for pos := 0; pos <= maxPos; pos += step {
			for ci, chunk := range []int{0, 1, 7} {
				// what the reader fails with (a custom error, io.EOF, io.ErrUnexpectedEOF) and whether the failing read also delivers data
				mode := []int{0, 1, 2, 10, 11, 12}[(pos/step+ci)%6]
				out := c.Run("c13.entropy", cn, fmt.Sprint(pos), fmt.Sprint(chunk), fmt.Sprint(mode))
				c.Count(fmt.Sprintf("entropy:mode%d", mode))
				c.Direct(!strings.Contains(out, "err+"), "an error was returned together with a key or signature", map[string]any{"curve": cn, "pos": pos, "chunk": chunk, "mode": mode, "impl": out})
				if pos < 32 {
					c.Direct(strings.HasPrefix(out, "sign=err"), "Sign succeeded although the entropy source failed before 32 bytes", map[string]any{"curve": cn, "pos": pos, "chunk": chunk, "impl": out})
				}
				if pos < cv.Params().BitSize/8+8 {
					c.Direct(strings.Contains(out, "gen=err"), "GenerateKey succeeded although the entropy source failed", map[string]any{"curve": cn, "pos": pos, "chunk": chunk, "impl": out})
				}
			}
		}
		c.Run("c13.entropy", cn, "-1", "0")
		c.Run("c13.entropy", cn, "-1", "1")
		c13LargeX(c, r, cn)
	}
	c13ShortScalars(c, r)
	c13Caller(c, r)
}

// c13ShortScalars: ASN.1 signatures whose r or s has leading zero bytes. One zero byte happens every 256th signature, two
// (where a hand-rolled minimal-length INTEGER encoder goes wrong if it strips only one) every 2^16th on curves whose order fills
// its bytes and every 2^9th on P-521 (order of 521 bits in 66 bytes) — so P-521 is signed in bulk: every signature must be
// accepted by crypto/ecdsa's strict parser and carry minimal INTEGERs (round 6).
func c13ShortScalars(c *Ctx, r *Rng) {
	cv := curves["P-521"]
	N := cv.Params().N
	sk, _ := ecdsa.CreateKey(cv, new(big.Int).Mod(new(big.Int).SetBytes(r.Bytes(66)), N).Bytes())
	std := &stdecdsa.PublicKey{Curve: cv, X: sk.X, Y: sk.Y}
	total := c.Pick(4096, 40000)
	type miss struct{ digest, sig []byte }
	short := make([]int, runtime.NumCPU())
	found := parMap(runtime.NumCPU(), func(wk int) *miss {
		rr := NewRng(c.Seed, fmt.Sprintf("c13-short-%d", wk))
		for i := 0; i < total/runtime.NumCPU(); i++ {
			digest := rr.Bytes(64)
			sig, err := ecdsa.SignASN1(realRand, sk, digest)
			if err != nil {
				return &miss{digest, nil}
			}
			if len(sig) < 3+2+65+2+65 {
				short[wk]++
			}
			if !stdecdsa.VerifyASN1(std, digest, sig) {
				return &miss{digest, sig}
			}
		}
		return nil
	})
	n := 0
	for _, k := range short {
		n += k
	}
	c.hist["P-521:der:bulk-signed"] += total
	c.hist["P-521:der:bulk-short-scalar"] += n
	for _, f := range found {
		if f != nil {
			c.Direct(false, "an ASN.1 signature made by the fork is rejected by crypto/ecdsa", map[string]any{"curve": "P-521", "pkx": bigHex(sk.X), "pky": bigHex(sk.Y), "digest": hx(f.digest), "sig": hx(f.sig)})
		}
	}
	c.Direct(true, "bulk ASN.1 signing ran", nil)
}

// c13LargeX: valid signatures whose ephemeral point has an affine x-coordinate in [N, P) — r is then x − N, a small number,
// and only the final reduction of x modulo N makes the comparison come out (round 6; honest signing reaches this with
// probability about 2^-(bits/2)). The point R is chosen first (x = N + i on the curve), then s, then the public key
// Q = r⁻¹(sR − eG); the digest and s vary.
func c13LargeX(c *Ctx, r *Rng, cn string) {
	cv := curves[cn]
	N, P, B := cv.Params().N, cv.Params().P, cv.Params().B
	found := 0
	for i := int64(1); i < 4000 && found < c.Pick(2, 12); i++ {
		x := new(big.Int).Add(N, big.NewInt(i))
		if x.Cmp(P) >= 0 {
			break
		}
		// y^2 = x^3 - 3x + b
		y2 := new(big.Int).Exp(x, big.NewInt(3), P)
		y2.Sub(y2, new(big.Int).Mul(big.NewInt(3), x)).Add(y2, B).Mod(y2, P)
		y := new(big.Int).ModSqrt(y2, P)
		if y == nil {
			continue
		}
		found++
		rr := big.NewInt(i)
		digest := r.Bytes([]int{20, 32, 48, 64, 66, 100}[found%6])
		// e: the leftmost bits of the digest, as many as the order has
		ob := N.BitLen()
		d := digest
		if len(d) > (ob+7)/8 {
			d = d[:(ob+7)/8]
		}
		e := new(big.Int).SetBytes(d)
		if ex := len(d)*8 - ob; ex > 0 {
			e.Rsh(e, uint(ex))
		}
		ss := new(big.Int).Mod(new(big.Int).SetBytes(r.Bytes(80)), new(big.Int).Sub(N, big.NewInt(1)))
		ss.Add(ss, big.NewInt(1))
		sx, sy := cv.ScalarMult(x, y, ss.Bytes())
		ex, ey := cv.ScalarBaseMult(new(big.Int).Mod(e, N).Bytes())
		ey = new(big.Int).Sub(P, ey)
		if e.Sign() == 0 || new(big.Int).Mod(e, N).Sign() == 0 {
			continue
		}
		tx, ty := cv.Add(sx, sy, ex, ey)
		rinv := new(big.Int).ModInverse(rr, N)
		qx, qy := cv.ScalarMult(tx, ty, rinv.Bytes())
		if !cv.IsOnCurve(qx, qy) {
			continue
		}
		std := &stdecdsa.PublicKey{Curve: cv, X: qx, Y: qy}
		for _, v := range []struct {
			kind string
			r, s *big.Int
		}{{"large-x", rr, ss}, {"large-x-twin", rr, new(big.Int).Sub(N, ss)}, {"large-x-unreduced-r", x, ss}, {"large-x-other-s", rr, new(big.Int).Add(ss, big.NewInt(1))}} {
			out := c.Run("c13.verify", cn, bigHex(qx), bigHex(qy), hx(digest), bigHex(v.r), bigHex(v.s))
			c.Count(cn + ":" + v.kind)
			want := stdecdsa.Verify(std, digest, v.r, v.s)
			c.Direct(out == b2s(want), "verdict differs from crypto/ecdsa", map[string]any{"curve": cn, "kind": v.kind, "pkx": bigHex(qx), "pky": bigHex(qy), "digest": hx(digest), "r": bigHex(v.r), "s": bigHex(v.s), "fork": out, "std": want})
			if v.kind == "large-x" {
				c.Direct(want, "harness: the constructed large-x signature is not valid under crypto/ecdsa", map[string]any{"curve": cn, "i": i})
			}
		}
	}
}

// callFailReader stands in for crypto/rand.Reader: the n-th read of more than one byte, and every read after it, fails
// (one-byte reads are the MaybeReadByte coin flips and always succeed, so that positions are stable).
type callFailReader struct {
	failAt, calls int
	failed        bool
}

func (f *callFailReader) Read(p []byte) (int, error) {
	if len(p) > 1 {
		if f.failed || f.calls == f.failAt {
			f.failed = true
			return 0, errors.New("entropy source failed")
		}
		f.calls++
	}
	for i := range p {
		p[i] = byte(41*f.calls + 7*i + 3)
	}
	return len(p), nil
}

// c13Caller: the package's one caller in the repository, the type-3 client, signs with crypto/rand.Reader: when that
// reader fails at any read during request creation, no signed request comes out.
func c13Caller(c *Ctx, r *Rng) {
	e := getC07Env(c.Seed, 0, []string{"a.example"})
	cl := newT3Client(r)
	ch, nonce := r.Bytes(20), r.Bytes(32)
	kid, tk, nk := e.issuer.TokenKeyID(), e.issuer.TokenKey(), e.issuer.NameKey()
	saved := crand.Reader
	defer func() { crand.Reader = saved }()
	for failAt := 0; failAt < 40; failAt++ {
		rd := &callFailReader{failAt: failAt}
		var err error
		var sig []byte
		crand.Reader = rd
		panicked := Try(func() {
			var st type3.RateLimitedTokenRequestState
			st, err = type3.NewRateLimitedClientFromSecret(cl.secret).CreateTokenRequest(ch, nonce, cl.blind, kid, tk, "a.example", nk)
			if err == nil {
				sig = st.Request().Signature
			}
		})
		crand.Reader = saved
		if !rd.failed {
			c.notes["c13_caller_reads"] = failAt
			break
		}
		c.Count("caller-entropy-failure")
		c.Direct(!panicked && err != nil && sig == nil, "the type-3 client returned a signed request although crypto/rand.Reader failed during its creation",
			map[string]any{"failed_read": failAt, "err": fmt.Sprint(err), "signature": hx(sig), "panicked": panicked})
	}
}

// (t little-endian, encoding of [t]B) for small and limb-boundary t, computed independently (pure-Python Edwards arithmetic)
var edSmallMultiples = [][2]string{
	{"0100000000000000000000000000000000000000000000000000000000000000", "5866666666666666666666666666666666666666666666666666666666666666"},
	{"0200000000000000000000000000000000000000000000000000000000000000", "c9a3f86aae465f0e56513864510f3997561fa2c9e85ea21dc2292309f3cd6022"},
	{"0300000000000000000000000000000000000000000000000000000000000000", "d4b4f5784868c3020403246717ec169ff79e26608ea126a1ab69ee77d1b16712"},
	{"0500000000000000000000000000000000000000000000000000000000000000", "edc876d6831fd2105d0b4389ca2e283166469289146e2ce06faefe98b22548df"},
	{"7f00000000000000000000000000000000000000000000000000000000000000", "2cce2b1abc87d277d7f71df10ac130eca59c851059b6fc3624baa73ceeaa4ab8"},
	{"0000008000000000000000000000000000000000000000000000000000000000", "82e7f6ba53840aa334ff3ca36aa137eaddb695b37819761e552f772e7fc1ea5e"},
	{"0100000001000000000000000000000000000000000000000000000000000000", "2e5493f5104299689399fb5ad157638400d6973fa492e38df6ed92d4b0cf5e86"},
	{"0000000000000040000000000000000000000000000000000000000000000000", "e0b5001d2a6faf79862fa65a93d1feae3aeedb7c61be7c01f9fe52dcd852a3c2"},
	{"ffffffffffffff7f000000000000000000000000000000000000000000000000", "84156203d50ab1ca3f2c9f01c49ac5e5d88aa60b95619039978a071c0d918825"},
	{"0000000000000080000000000000000000000000000000000000000000000000", "89f98007cf3fb3e9e745443d2a7ce9e4165c5e651cc77dc67afb43ee25764672"},
	{"3930000000000080000000000000000000000000000000000000000000000000", "d3e93e43154dbc93e777346e1e0e4c02ba14ce841d43e9725e15bacfde3bc9ce"},
	{"ffffffffffffffff000000000000000000000000000000000000000000000000", "e185757a3fdc6519a6e7bebd97aa52bdc999e4c87d5c3aad0d995763ab6c6985"},
	{"0000000000000000010000000000000000000000000000000000000000000000", "1353e48257fa1e8f062b90ba08b610544f7c1b26edda6bdd25d04eea42bb2503"},
	{"0100000000000000010000000000000000000000000000000000000000000000", "465e51fe1dbfe5e59b950d67f8d1b55aa1932cc3de0e97852d7feaab3e473018"},
	{"0000000000000000000000001000000000000000000000000000000000000000", "dc8eebc6bfdd117be747e6cee7b6c5e88adc4b57153b66ca89a3fdac0de11dfa"},
	{"0000000000000000000000000000004000000000000000000000000000000000", "485f27905c0242ad78475cb57e088500fa7ffdfde70911f27e1b386c356d3366"},
}

func runC14(c *Ctx) {
	r := NewRng(c.Seed, "c14")
	n := c.Pick(60, 3000)
	L, _ := new(big.Int).SetString("7237005577332262213973186563042994240857116359379907606001950938285454250989", 10)
	le := func(x *big.Int) []byte {
		b := make([]byte, 32)
		x.FillBytes(b)
		for i, j := 0, 31; i < j; i, j = i+1, j-1 {
			b[i], b[j] = b[j], b[i]
		}
		return b
	}
	verify := func(kind string, pk, msg, sig []byte) {
		out := c.Run("c14.verify", hx(pk), hx(msg), hx(sig))
		c.Count("verify:" + kind)
		want := stded.Verify(pk, msg, sig)
		c.Direct(out == b2s(want), "verdict differs from crypto/ed25519", map[string]any{"kind": kind, "pk": hx(pk), "msg": hx(msg), "sig": hx(sig), "fork": out, "std": want})
	}
	// the eight small-order points (canonical encodings) and non-canonical variants
	small := []string{
		"0100000000000000000000000000000000000000000000000000000000000000",
		"ecffffffffffffffffffffffffffffffffffffffffffffffffffffffffffff7f",
		"0000000000000000000000000000000000000000000000000000000000000000",
		"0000000000000000000000000000000000000000000000000000000000000080",
		"26e8958fc2b227b045c3f489f2ef98f0d5dfac05d3c63339b13802886d53fc05",
		"26e8958fc2b227b045c3f489f2ef98f0d5dfac05d3c63339b13802886d53fc85",
		"c7176a703d4dd84fba3c0b760d10670f2a2053fa2c39ccc64ec7fd7792ac037a",
		"c7176a703d4dd84fba3c0b760d10670f2a2053fa2c39ccc64ec7fd7792ac03fa",
		"0100000000000000000000000000000000000000000000000000000000000080",   // identity with sign bit
		"eeffffffffffffffffffffffffffffffffffffffffffffffffffffffffffff7f", // y = p + 1
		"edffffffffffffffffffffffffffffffffffffffffffffffffffffffffffff7f", // y = p
		"ffffffffffffffffffffffffffffffffffffffffffffffffffffffffffffff7f",
		"ffffffffffffffffffffffffffffffffffffffffffffffffffffffffffffffff",
	}
	for i := 0; i < n; i++ {
		seed := r.Bytes(32)
		msg := r.Bytes([]int{0, 1, 32, 100, 1000}[i%5])
		out := c.Run("c14.key", hx(seed))
		std := stded.NewKeyFromSeed(seed)
		c.Direct(out == "ok "+hxv(std), "key derivation differs from crypto/ed25519", map[string]any{"seed": hx(seed)})
		so := c.Run("c14.sign", hx(seed), hx(msg))
		sig := stded.Sign(std, msg)
		c.Direct(so == "ok "+hxv(sig), "signature differs from crypto/ed25519", map[string]any{"seed": hx(seed), "msg": hx(msg)})
		c.Count("key+sign")
		pk := []byte(std[32:])
		verify("valid", pk, msg, sig)
		if i%4 != 0 && !c.Thorough() {
			continue
		}
		S := new(big.Int).SetBytes(func() []byte {
			b := append([]byte{}, sig[32:]...)
			for i, j := 0, 31; i < j; i, j = i+1, j-1 {
				b[i], b[j] = b[j], b[i]
			}
			return b
		}())
		withS := func(x *big.Int) []byte {
			if x.BitLen() > 256 {
				x = new(big.Int).Mod(x, new(big.Int).Lsh(big.NewInt(1), 256))
			}
			return append(append([]byte{}, sig[:32]...), le(x)...)
		}
		verify("S+L", pk, msg, withS(new(big.Int).Add(S, L)))
		verify("S+2L", pk, msg, withS(new(big.Int).Add(S, new(big.Int).Lsh(L, 1))))
		verify("S=L", pk, msg, withS(L))
		verify("S=L-1", pk, msg, withS(new(big.Int).Sub(L, big.NewInt(1))))
		verify("S=0", pk, msg, withS(big.NewInt(0)))
		verify("S=2^252", pk, msg, withS(new(big.Int).Lsh(big.NewInt(1), 252)))
		verify("S=2^253-1", pk, msg, withS(new(big.Int).Sub(new(big.Int).Lsh(big.NewInt(1), 253), big.NewInt(1))))
		verify("S=ff", pk, msg, append(append([]byte{}, sig[:32]...), bytes.Repeat([]byte{0xff}, 32)...))
		for _, hb := range []byte{0x20, 0x40, 0x80, 0xe0} {
			m := append([]byte{}, sig...)
			m[63] |= hb
			verify("S-highbits", pk, msg, m)
		}
		for _, l := range []int{0, 1, 63, 65, 128} {
			verify("sig-length", pk, msg, r.Bytes(l))
		}
		for k := 0; k < 4; k++ {
			m := append([]byte{}, sig...)
			m[r.IntN(64)] ^= 1 << r.IntN(8)
			verify("sig-flip", pk, msg, m)
			p2 := append([]byte{}, pk...)
			p2[r.IntN(32)] ^= 1 << r.IntN(8)
			verify("pk-flip", p2, msg, sig)
		}
		verify("msg-changed", pk, append(append([]byte{}, msg...), 1), sig)
		for _, sp := range small {
			A := unhx(sp)
			if len(A) != 32 {
				continue
			}
			// small-order A with S = 0 and R = each small point; and as R with the real key
			for _, rp := range small[:9] {
				R := unhx(rp)
				if len(R) != 32 {
					continue
				}
				verify("small-order", A, msg, append(append([]byte{}, R...), make([]byte, 32)...))
			}
			verify("small-R", pk, msg, append(append([]byte{}, A...), sig[32:]...))
			verify("small-A", A, msg, sig)
		}
		verify("random-pk", r.Bytes(32), msg, sig)
	}
	// signatures that verify and whose S is small: public key = the identity (so [k]A vanishes), R = [t]B, S = t.
	// Then S + L, S + 2L … are the same scalar in non-canonical form, which crypto/ed25519 refuses.
	ident := unhx("0100000000000000000000000000000000000000000000000000000000000000")
	two256 := new(big.Int).Lsh(big.NewInt(1), 256)
	for _, tm := range edSmallMultiples {
		tLE, R := unhx(tm[0]), unhx(tm[1])
		t := new(big.Int).SetBytes(func() []byte {
			b := append([]byte{}, tLE...)
			for i, j := 0, 31; i < j; i, j = i+1, j-1 {
				b[i], b[j] = b[j], b[i]
			}
			return b
		}())
		msg := r.Bytes(r.IntN(40))
		mk := func(x *big.Int) []byte { return append(append([]byte{}, R...), le(x)...) }
		in := map[string]any{"t": tm[0], "R": tm[1]}
		c.Direct(stded.Verify(ident, msg, mk(t)), "harness: the small-S signature is not valid in crypto/ed25519", in)
		verify("smallS", ident, msg, mk(t))
		for k := int64(1); k <= 15; k++ {
			x := new(big.Int).Add(t, new(big.Int).Mul(big.NewInt(k), L))
			if x.Cmp(two256) >= 0 {
				break
			}
			verify(fmt.Sprintf("smallS+%dL", k), ident, msg, mk(x))
		}
		verify("smallS-1", ident, msg, mk(new(big.Int).Sub(t, big.NewInt(1))))
	}
	// signatures that verify and whose S is large but canonical (2^252 <= S < L, about 2^-127 of honest signatures): again
	// under the identity key (and the order-2 key), R = [S]B from the math/big reference
	{
		B := edDecode(unhx("5866666666666666666666666666666666666666666666666666666666666666"))
		two252 := new(big.Int).Lsh(big.NewInt(1), 252)
		span := new(big.Int).Sub(L, two252)
		cands := []*big.Int{two252, new(big.Int).Add(two252, big.NewInt(1)), new(big.Int).Sub(L, big.NewInt(1)), new(big.Int).Sub(L, big.NewInt(2)),
			new(big.Int).Sub(two252, big.NewInt(1))}
		for k := 0; k < c.Pick(4, 40); k++ {
			cands = append(cands, new(big.Int).Add(two252, new(big.Int).Mod(new(big.Int).SetBytes(r.Bytes(40)), span)))
		}
		for _, S := range cands {
			R := edEncode(edMul(S, *B))
			msg := r.Bytes(r.IntN(40))
			sig := append(append([]byte{}, R...), le(S)...)
			c.Direct(stded.Verify(ident, msg, sig), "harness: the large-S signature is not valid in crypto/ed25519", map[string]any{"S": bigHex(S)})
			verify("largeS", ident, msg, sig)
			verify("largeS-order2-key", unhx("ec"+strings.Repeat("ff", 30)+"7f"), msg, sig)
		}
	}
	// a valid key, then a key that does not decode, offered repeatedly with a signature valid under the first
	{
		seed := r.Bytes(32)
		sk := stded.NewKeyFromSeed(seed)
		pkA := []byte(sk[32:])
		var bad [][]byte
		for len(bad) < 3 {
			x := r.Bytes(32)
			if edDecode(x) == nil {
				bad = append(bad, x)
			}
		}
		for _, X := range bad {
			msg := r.Bytes(20)
			sig := stded.Sign(sk, msg)
			// a signature made with A's secret scalar over the hash that names X as the key: valid if a verifier
			// decodes A where it should have decoded (and refused) X
			h := sha512.Sum512(seed)
			h[0] &= 248
			h[31] &= 127
			h[31] |= 64
			aS := leInt(h[:32])
			rS := new(big.Int).Mod(leInt(r.Bytes(32)), edL)
			B := edDecode(unhx("5866666666666666666666666666666666666666666666666666666666666666"))
			Renc := edEncode(edMul(rS, *B))
			kh := sha512.Sum512(append(append(append([]byte{}, Renc...), X...), msg...))
			kS := new(big.Int).Mod(leInt(kh[:]), edL)
			Ssc := new(big.Int).Mod(new(big.Int).Add(rS, new(big.Int).Mul(kS, aS)), edL)
			crafted := append(append([]byte{}, Renc...), le(Ssc)...)
			verify("cache:valid-key", pkA, msg, sig)
			verify("cache:crafted-for-undecodable-key-first", X, msg, crafted)
			verify("cache:valid-key", pkA, msg, sig)
			verify("cache:crafted-for-undecodable-key-again", X, msg, crafted)
			verify("cache:crafted-for-undecodable-key-third", X, msg, crafted)
			verify("cache:undecodable-key-first", X, msg, sig)
			verify("cache:undecodable-key-again", X, msg, sig)
			verify("cache:undecodable-key-third", X, msg, sig)
			verify("cache:valid-key-again", pkA, msg, sig)
		}
	}
	c14Scalars(c, r, L)
	c14Field(c, NewRng(c.Seed, "c14-field"))
	c14Points(c, NewRng(c.Seed, "c14-points"))
	c14ScalarMult(c, NewRng(c.Seed, "c14-scalarmult"))
	c14Digits(c, NewRng(c.Seed, "c14-digits"))
	// entropy reader: consumed identically, error returned
	for pos := 0; pos <= 34; pos++ {
		for ci, chunk := range []int{0, 1, 5, 32, 33} {
			mode := []int{0, 1, 2, 10, 11, 12}[(pos+ci)%6]
			out := c.Run("c14.genkey", fmt.Sprint(pos), fmt.Sprint(chunk), fmt.Sprint(mode))
			rd := &failReader{limit: pos, chunk: chunk, mode: mode}
			pk, sk, err := stded.GenerateKey(rd)
			want := ""
			if err != nil {
				want = fmt.Sprintf("err(%d)", rd.served)
			} else {
				want = fmt.Sprintf("ok(%d) %s", rd.served, hxv(sk))
			}
			_ = pk
			c.Direct(out == want, "GenerateKey consumes the entropy reader differently from crypto/ed25519", map[string]any{"pos": pos, "chunk": chunk, "mode": mode, "fork": out, "std": want})
			c.Count("genkey")
		}
	}
	c.Run("c14.genkey", "-1", "0")
}

// scalarInverses: ModInverse on scalars whose inverse is short (leading zero bytes), long, 1, L-1 — against math/big (round 6:
// a result written back without its leading zero bytes).
func scalarInverses(c *Ctx, r *Rng, L *big.Int) {
	le32 := func(x *big.Int) []byte {
		b := x.FillBytes(make([]byte, 32))
		for i, j := 0, 31; i < j; i, j = i+1, j-1 {
			b[i], b[j] = b[j], b[i]
		}
		return b
	}
	var ts []*big.Int
	for _, k := range []uint{0, 1, 7, 8, 15, 16, 64, 128, 200, 232, 239, 240, 241, 247, 248, 249, 251} {
		t := new(big.Int).Lsh(big.NewInt(1), k)
		ts = append(ts, t, new(big.Int).Sub(t, big.NewInt(1)), new(big.Int).Add(t, big.NewInt(int64(1+r.IntN(200)))))
	}
	for i := 0; i < c.Pick(60, 2000); i++ {
		t := new(big.Int).SetBytes(r.Bytes(1 + r.IntN(32)))
		ts = append(ts, t.Mod(t, L))
	}
	ts = append(ts, new(big.Int).Sub(L, big.NewInt(1)), new(big.Int).Sub(L, big.NewInt(2)))
	for _, t := range ts {
		if t.Sign() == 0 || t.Cmp(L) >= 0 {
			continue
		}
		a := new(big.Int).ModInverse(t, L)
		// the receiver's old contents must not show through: the hook inverts in place
		got := ed25519.VerifScalarInverse(le32(a))
		c.Count("scalar:inverse")
		c.Direct(bytes.Equal(got, le32(t)), "scalar inverse modulo L differs from math/big", map[string]any{"a": hx(le32(a)), "impl": hx(got), "expected": hx(le32(t))})
	}
}

// c14Scalars: the limb arithmetic behind key derivation, signing and the canonical-S check, against math/big —
// a sample through the model, and a bulk random search (every core) for the rare carry patterns a wrong carry chain
// shows on (rates around 2^-25 are realistic for such bugs).
func c14Scalars(c *Ctx, r *Rng, L *big.Int) {
	le := func(b []byte) *big.Int {
		x := make([]byte, len(b))
		for i := range b {
			x[len(b)-1-i] = b[i]
		}
		return new(big.Int).SetBytes(x)
	}
	le32 := func(x *big.Int) []byte {
		b := x.FillBytes(make([]byte, 32))
		for i, j := 0, 31; i < j; i, j = i+1, j-1 {
			b[i], b[j] = b[j], b[i]
		}
		return b
	}
	// structured wide inputs: 21-bit limbs at their extremes, multiples of L around 2^252·k, all ones, powers of two
	var wides [][]byte
	limbVals := []uint32{0, 1, 0xfffff, 0x100000, 0x1fffff, 0x1ffffe}
	for i := 0; i < c.Pick(400, 20000); i++ {
		acc := new(big.Int)
		for k := 23; k >= 0; k-- {
			v := limbVals[r.IntN(len(limbVals))]
			if r.IntN(3) == 0 {
				v = r.Uint32() & 0x1fffff
			}
			acc.Lsh(acc, 21).Or(acc, big.NewInt(int64(v)))
		}
		acc.And(acc, new(big.Int).Sub(new(big.Int).Lsh(big.NewInt(1), 512), big.NewInt(1)))
		w := acc.FillBytes(make([]byte, 64))
		for i, j := 0, 63; i < j; i, j = i+1, j-1 {
			w[i], w[j] = w[j], w[i]
		}
		wides = append(wides, w)
	}
	for k := 0; k < 64; k++ {
		m := new(big.Int).Mul(L, new(big.Int).Lsh(big.NewInt(1), uint(4*k)))
		for _, d := range []int64{-1, 0, 1} {
			x := new(big.Int).Add(m, big.NewInt(d))
			if x.Sign() >= 0 && x.BitLen() <= 512 {
				w := x.FillBytes(make([]byte, 64))
				for i, j := 0, 63; i < j; i, j = i+1, j-1 {
					w[i], w[j] = w[j], w[i]
				}
				wides = append(wides, w)
			}
		}
	}
	// multiples of L close to 2^512 minus a little: the partially reduced value then sits just under a multiple of L with every
	// high limb in play (round 6: a fold of the top carry that is wrong only there)
	{
		top := new(big.Int).Div(new(big.Int).Sub(new(big.Int).Lsh(big.NewInt(1), 512), big.NewInt(1)), L)
		for j := 0; j < c.Pick(120, 2000); j++ {
			m := new(big.Int).Sub(top, new(big.Int).Rsh(new(big.Int).SetBytes(r.Bytes(33)), uint(8+r.IntN(250))))
			if j%3 == 0 {
				m = new(big.Int).Lsh(big.NewInt(1), uint(200+r.IntN(60)))
				m.Add(m, big.NewInt(int64(r.IntN(5))))
			}
			for _, d := range []int64{1, 2, 3} {
				x := new(big.Int).Sub(new(big.Int).Mul(m, L), big.NewInt(d))
				if x.Sign() < 0 || x.BitLen() > 512 {
					continue
				}
				w := x.FillBytes(make([]byte, 64))
				for i, j := 0, 63; i < j; i, j = i+1, j-1 {
					w[i], w[j] = w[j], w[i]
				}
				wides = append(wides, w)
			}
		}
	}
	wides = append(wides, bytes.Repeat([]byte{0xff}, 64), make([]byte, 64))
	for _, w := range wides {
		out := c.Run("c14.screduce", hx(w))
		c.Count("scalar:reduce-structured")
		c.Direct(out == "ok "+hxv(le32(new(big.Int).Mod(le(w), L))), "64-byte reduction modulo L differs from math/big", map[string]any{"wide": hx(w), "impl": out})
	}
	for i := 0; i < c.Pick(300, 20000); i++ {
		a, b, d := r.Bytes(32), r.Bytes(32), r.Bytes(32)
		if i%3 == 0 {
			a, b = bytes.Repeat([]byte{0xff}, 32), le32(new(big.Int).Sub(L, big.NewInt(int64(1+r.IntN(3)))))
		}
		out := c.Run("c14.scmuladd", hx(a), hx(b), hx(d))
		c.Count("scalar:muladd")
		want := new(big.Int).Mod(new(big.Int).Add(new(big.Int).Mul(le(a), le(b)), le(d)), L)
		c.Direct(out == "ok "+hxv(le32(want)), "a·b + c modulo L differs from math/big", map[string]any{"a": hx(a), "b": hx(b), "c": hx(d), "impl": out})
	}
	// canonical-scalar check on and around L and every byte-aligned neighbour
	for _, d := range []int64{-2, -1, 0, 1, 2, 255, 256, 65536} {
		for _, base := range []*big.Int{L, new(big.Int).Lsh(L, 1), new(big.Int).Lsh(big.NewInt(1), 252), new(big.Int).Sub(new(big.Int).Lsh(big.NewInt(1), 256), big.NewInt(70000)), big.NewInt(3)} {
			x := new(big.Int).Add(base, big.NewInt(d))
			if x.Sign() < 0 || x.BitLen() > 256 {
				continue
			}
			out := c.Run("c14.sccanon", hx(le32(x)))
			c.Count("scalar:canonical")
			c.Direct(out == b2s(x.Cmp(L) < 0), "canonical-scalar verdict differs from `value < L`", map[string]any{"x": x.Text(16), "impl": out})
		}
	}
	scalarInverses(c, r, L)
	// bulk search (direct oracle only): independent generators per worker, first mismatch reported with its input
	total := c.Pick(1<<27, 1<<30)
	workers := runtime.NumCPU()
	type miss struct{ w, got, want []byte }
	found := parMap(workers, func(wk int) *miss {
		rr := NewRng(c.Seed, fmt.Sprintf("c14-bulk-%d", wk))
		buf := make([]byte, 64)
		x, m, rev := new(big.Int), new(big.Int), make([]byte, 64)
		var tmp [32]byte
		for i := 0; i < total/workers; i++ {
			// cheap generator: a xorshift-filled buffer re-keyed from the Rng every 4096 inputs
			if i%4096 == 0 {
				copy(buf, rr.Bytes(64))
			}
			for k := 0; k < 64; k += 8 {
				v := binary.LittleEndian.Uint64(buf[k:])
				v ^= v << 13
				v ^= v >> 7
				v ^= v << 17
				binary.LittleEndian.PutUint64(buf[k:], v+uint64(i))
			}
			got := ed25519.VerifScalarReduce(buf)
			for k := range buf {
				rev[63-k] = buf[k]
			}
			m.Mod(x.SetBytes(rev), L)
			m.FillBytes(tmp[:])
			same := true
			for k := 0; k < 32; k++ {
				if got[k] != tmp[31-k] {
					same = false
					break
				}
			}
			if !same {
				return &miss{append([]byte{}, buf...), got, le32(m)}
			}
		}
		return nil
	})
	c.hist["scalar:reduce-bulk"] += total
	c.notes["c14_bulk_reductions"] = total
	for _, f := range found {
		if f != nil {
			c.Direct(false, "64-byte reduction modulo L differs from math/big", map[string]any{"wide": hx(f.w), "impl": hx(f.got), "expected": hx(f.want)})
		}
	}
	c.Direct(true, "bulk reduction search ran", nil)
}

func runC15(c *Ctx) {
	r := NewRng(c.Seed, "c15")
	n := c.Pick(40, 1500)
	L, _ := new(big.Int).SetString("7237005577332262213973186563042994240857116359379907606001950938285454250989", 10)
	// blinds whose scalar has a short inverse (two or more leading zero bytes: one blind in 2^12..2^16), found by search: unblinding
	// multiplies by that inverse (round 6). They take the place of the first random blinds below.
	var shortInv [][]byte
	{
		rs := NewRng(c.Seed, "c15-short-inverse")
		base := rs.Bytes(32)
		for k := 0; k < 1<<18 && len(shortInv) < c.Pick(4, 24); k++ {
			binary.LittleEndian.PutUint32(base[:4], uint32(k))
			h := sha512.Sum512(append(append([]byte{}, base...), 0))
			x := new(big.Int)
			for j := 31; j >= 0; j-- {
				x.Lsh(x, 8).Or(x, big.NewInt(int64(h[j])))
			}
			x.Mod(x, L)
			if x.Sign() != 0 && new(big.Int).ModInverse(x, L).BitLen() <= 240 {
				shortInv = append(shortInv, append([]byte{}, base...))
			}
		}
		c.hist["blind:short-inverse-found"] = len(shortInv)
	}
	scalarInverses(c, r, L)
	// blinding is ScalarMult(hash-derived scalar, public key): the recoding and the variable-base loop on the digit patterns no
	// hash-derived scalar will show (round 7/8: a recoding that loses a carry next to a 0x7777… word)
	c14Digits(c, NewRng(c.Seed, "c15-digits"))
	c14ScalarMult(c, NewRng(c.Seed, "c15-scalarmult"))
	// small-order public keys and their non-canonical encodings, blinded once and twice (two orders), and unblinded: the blinded
	// key is pk × scalar also there (round 7: fast paths in the point formulas that mistake a torsion point for the identity)
	{
		torsion := []string{
			"0100000000000000000000000000000000000000000000000000000000000000", "ecffffffffffffffffffffffffffffffffffffffffffffffffffffffffffff7f",
			"0000000000000000000000000000000000000000000000000000000000000000", "0000000000000000000000000000000000000000000000000000000000000080",
			"26e8958fc2b227b045c3f489f2ef98f0d5dfac05d3c63339b13802886d53fc05", "26e8958fc2b227b045c3f489f2ef98f0d5dfac05d3c63339b13802886d53fc85",
			"c7176a703d4dd84fba3c0b760d10670f2a2053fa2c39ccc64ec7fd7792ac037a", "c7176a703d4dd84fba3c0b760d10670f2a2053fa2c39ccc64ec7fd7792ac03fa",
			"ecffffffffffffffffffffffffffffffffffffffffffffffffffffffffffffff", "0100000000000000000000000000000000000000000000000000000000000080",
			"eeffffffffffffffffffffffffffffffffffffffffffffffffffffffffffff7f",
		}
		ref := func(pk, blind, ctx []byte) []byte {
			p := edDecodeLax(pk)
			if p == nil {
				return nil
			}
			h := sha512.Sum512(append(append(append([]byte{}, blind...), 0), ctx...))
			k := new(big.Int).Mod(leInt(h[:32]), L)
			return edEncode(edMul(k, *p))
		}
		for ti, t := range torsion {
			for rep := 0; rep < c.Pick(3, 20); rep++ {
				pk, b1, b2, ctx := unhx(t), r.Bytes(32), r.Bytes(32), r.Bytes([]int{0, 5, 40}[(ti+rep)%3])
				in := map[string]any{"pk": t, "blind": hx(b1), "blind2": hx(b2), "ctx": hx(ctx)}
				out := c.Run("c15.blind", hx(pk), hx(b1), hx(ctx))
				c.Count("blind:torsion-key")
				want := ref(pk, b1, ctx)
				if !c.DirectOK(out == "ok "+hxv(want), "blinded small-order key is not pk × (SHA-512(blind ‖ 0x00 ‖ context)[0:32] mod L) (math/big reference)", in) {
					continue
				}
				o12 := c.Run("c15.blind", hx(want), hx(b2), hx(ctx))
				p2 := ref(pk, b2, ctx)
				o21 := c.Run("c15.blind", hx(p2), hx(b1), hx(ctx))
				c.Direct(o12 == o21 && o12 == "ok "+hxv(ref(want, b2, ctx)), "two blindings of a small-order key do not commute, or differ from the reference", in)
				c.Run("c15.unblind", hx(want), hx(b1), hx(ctx))
			}
		}
	}
	for i := 0; i < n; i++ {
		seed, blind, msg := r.Bytes(32), r.Bytes(32), r.Bytes([]int{0, 1, 32, 200}[i%4])
		ctx := r.Bytes([]int{0, 1, 16, 100, 31, 32, 33, 64, 65, 95, 96, 128, 300}[i%13])
		if i < len(shortInv) {
			blind, ctx = shortInv[i], nil
		}
		sk := ed25519.NewKeyFromSeed(seed)
		pk := []byte(sk[32:])
		in := map[string]any{"seed": hx(seed), "blind": hx(blind), "ctx": hx(ctx), "msg": hx(msg)}
		out := c.Run("c15.blind", hx(pk), hx(blind), hx(ctx))
		c.Count("blind")
		bp, err := ed25519.BlindPublicKeyWithContext(pk, blind, ctx)
		if !c.DirectOK(err == nil && out == "ok "+hxv(bp), "blinding failed (or differs when blind and context are adjacent in one buffer)", in) {
			continue
		}
		c.Direct(bytes.Equal(bp, edRefBlind(pk, blind, ctx)), "blinded key is not pk × (SHA-512(blind ‖ 0x00 ‖ context)[0:32] mod L) (math/big reference)", in)
		c.Run("c15.unblind", hx(bp), hx(blind), hx(ctx))
		up, err := ed25519.UnblindPublicKeyWithContext(bp, blind, ctx)
		c.Direct(err == nil && bytes.Equal(up, pk), "unblinding does not invert blinding", in)
		so := c.Run("c15.sign", hx(seed), hx(msg), hx(blind), hx(ctx))
		sig := ed25519.BlindKeySignWithContext(sk, msg, blind, ctx)
		c.Direct(so == "ok "+hxv(sig) && bytes.Equal(sig, ed25519.BlindKeySignWithContext(sk, msg, blind, ctx)), "blinded signing is not deterministic", in)
		c.Direct(stded.Verify(stded.PublicKey(bp), msg, sig), "blinded signature does not verify under the blinded key with crypto/ed25519", in)
		c.Direct(ed25519.Verify(bp, msg, sig), "blinded signature does not verify under the blinded key with the fork", in)
		c.Direct(!stded.Verify(pk, msg, sig), "blinded signature verifies under the original key", in)
		c.Run("c14.verify", hx(bp), hx(msg), hx(sig))
		c.Run("c14.verify", hx(pk), hx(msg), hx(sig))
		// commute; change blind / context
		blind2, ctx2 := r.Bytes(32), r.Bytes(7)
		p12, _ := ed25519.BlindPublicKeyWithContext(bp, blind2, ctx2)
		p2, _ := ed25519.BlindPublicKeyWithContext(pk, blind2, ctx2)
		p21, _ := ed25519.BlindPublicKeyWithContext(p2, blind, ctx)
		c.Direct(bytes.Equal(p12, p21), "two blindings do not commute", in)
		c.Direct(!bytes.Equal(p2, bp), "a different blind gave the same blinded key", in)
		pc, _ := ed25519.BlindPublicKeyWithContext(pk, blind, append(append([]byte{}, ctx...), 0))
		c.Direct(!bytes.Equal(pc, bp), "a different context gave the same blinded key", in)
		// blinds that are not 32 bytes are accepted by BlindPublicKey (no length check) — compared with the model
		if i%5 == 0 {
			c.Run("c15.blind", hx(pk), hx(r.Bytes(r.IntN(70))), hx(ctx))
			c.Run("c15.blind", hx(r.Bytes(32)), hx(blind), hx(ctx)) // arbitrary bytes as a public key
		}
	}
}
