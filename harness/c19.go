package main

import (
	"bytes"
	"fmt"
	"runtime"
	"strconv"
	"sync"
	"sync/atomic"

	"github.com/cloudflare/pat-go/quicwire"
)

func init() {
	props["C19"] = runC19
	replayers["c19.append"] = func(c *Ctx, a []string) string {
		prefix := unhx(a[0])
		v, _ := strconv.ParseUint(a[1], 10, 64)
		// give the destination spare capacity holding sentinels: the prefix must stay intact
		buf := make([]byte, len(prefix), len(prefix)+16)
		copy(buf, prefix)
		out := quicwire.AppendVarint(buf, v)
		res := "ok " + hxv(out)
		// results of appends to an empty destination are scratch the caller reuses and overwrites
		s0 := quicwire.AppendVarint(nil, v)
		s0 = quicwire.AppendVarint(s0[:0], v^0x2a&0x3f)
		for i := range s0 {
			s0[i] = 0xee
		}
		if again := quicwire.AppendVarint(buf[:len(prefix)], v); "ok "+hxv(again) != res {
			return "second-encoding-differs " + hxv(again)
		}
		if e := quicwire.AppendVarint(nil, v); !bytes.Equal(e, out[len(prefix):]) {
			return "encoding-into-empty-destination-differs " + hxv(e)
		}
		return res
	}
	replayers["c19.size"] = func(c *Ctx, a []string) string {
		v, _ := strconv.ParseUint(a[0], 10, 64)
		return "ok " + strconv.Itoa(quicwire.SizeVarint(v))
	}
	replayers["c19.consume"] = func(c *Ctx, a []string) string {
		v, n := quicwire.ConsumeVarint(unhx(a[0]))
		return fmt.Sprintf("%d %d", v, n)
	}
	replayers["c19.consumeI64"] = func(c *Ctx, a []string) string {
		v, n := quicwire.ConsumeVarintInt64(unhx(a[0]))
		return fmt.Sprintf("%d %d", v, n)
	}
	replayers["c19.u32"] = func(c *Ctx, a []string) string {
		v, n := quicwire.ConsumeUint32(unhx(a[0]))
		return fmt.Sprintf("%d %d", v, n)
	}
	replayers["c19.u64"] = func(c *Ctx, a []string) string {
		v, n := quicwire.ConsumeUint64(unhx(a[0]))
		return fmt.Sprintf("%d %d", v, n)
	}
	replayers["c19.u8bytes"] = func(c *Ctx, a []string) string {
		v, n := quicwire.ConsumeUint8Bytes(unhx(a[0]))
		return fmt.Sprintf("ok %s %d", hx(v), n)
	}
	replayers["c19.vbytes"] = func(c *Ctx, a []string) string {
		v, n := quicwire.ConsumeVarintBytes(unhx(a[0]))
		return fmt.Sprintf("ok %s %d", hx(v), n)
	}
	replayers["c19.appendU8Bytes"] = func(c *Ctx, a []string) string {
		return "ok " + hxv(quicwire.AppendUint8Bytes(unhx(a[0]), unhx(a[1])))
	}
	replayers["c19.appendVBytes"] = func(c *Ctx, a []string) string {
		return "ok " + hxv(quicwire.AppendVarintBytes(unhx(a[0]), unhx(a[1])))
	}
}

// refEnc is the independent closed form: the n-byte big-endian value v + tag<<(8n-2)
// for the least n in {1,2,4,8} with v < 2^(8n-2).
func refEnc(v uint64) []byte {
	n, tag := 8, uint64(3)
	switch {
	case v < 1<<6:
		n, tag = 1, 0
	case v < 1<<14:
		n, tag = 2, 1
	case v < 1<<30:
		n, tag = 4, 2
	}
	x := v + tag<<(8*uint(n)-2)
	out := make([]byte, n)
	for i := n - 1; i >= 0; i-- {
		out[i] = byte(x)
		x >>= 8
	}
	return out
}

// directVarint checks the property on the implementation alone for one value.
func directVarint(v uint64, prefix []byte) (bool, string) {
	want := refEnc(v)
	buf := make([]byte, len(prefix), len(prefix)+12)
	copy(buf, prefix)
	got := quicwire.AppendVarint(buf, v)
	if len(got) < len(prefix) || !bytes.Equal(got[:len(prefix)], prefix) {
		return false, "prefix changed"
	}
	if !bytes.Equal(got[len(prefix):], want) {
		return false, "not the shortest big-endian form"
	}
	if quicwire.SizeVarint(v) != len(want) {
		return false, "size != encoded length"
	}
	dv, dn := quicwire.ConsumeVarint(want)
	if dv != v || dn != len(want) {
		return false, "decode(encode v) != (v, len)"
	}
	return true, ""
}

// directConsume checks the decoder contract for one byte string.
func directConsume(b []byte) (bool, string) {
	v, n := quicwire.ConsumeVarint(b)
	if len(b) == 0 {
		return n < 0, "empty input must fail"
	}
	ann := 1 << (b[0] >> 6)
	if len(b) < ann {
		if n >= 0 {
			return false, "short input accepted"
		}
		return true, ""
	}
	if n != ann {
		return false, "length is not the announced one"
	}
	v2, n2 := quicwire.ConsumeVarint(b[:ann:ann])
	if v2 != v || n2 != n {
		return false, "reads beyond the announced bytes"
	}
	// value = big-endian of the announced bytes with the top two bits cleared
	var w uint64
	for i := 0; i < ann; i++ {
		x := b[i]
		if i == 0 {
			x &= 0x3f
		}
		w = w<<8 | uint64(x)
	}
	if w != v {
		return false, "wrong value"
	}
	return true, ""
}

func directVarintBytes(b []byte) (bool, string) {
	var out []byte
	var n int
	s := protect(func() string { out, n = quicwire.ConsumeVarintBytes(b); return "" })
	if s == "panic" {
		return false, "panic"
	}
	v, vn := quicwire.ConsumeVarint(b)
	if vn < 0 {
		return out == nil && n == -1, "no prefix must fail"
	}
	if v > uint64(len(b)-vn) {
		return out == nil && n == -1, "declared length beyond input must fail"
	}
	return n == vn+int(v) && bytes.Equal(out, b[vn:vn+int(v)]), "wrong content"
}

func runC19(c *Ctx) {
	r := NewRng(c.Seed, "c19")
	dec := func(v uint64) string { return strconv.FormatUint(v, 10) }

	// class boundaries ±2 and structured values
	var vals []uint64
	for _, e := range []uint{0, 6, 8, 14, 16, 24, 30, 32, 56, 62, 63, 64} {
		base := uint64(0)
		if e < 64 {
			base = uint64(1) << e
		}
		for d := -2; d <= 2; d++ {
			vals = append(vals, base+uint64(d))
		}
	}
	vals = append(vals, 0, 1, 2, 63, 64, 16383, 16384, 1073741823, 1073741824, 4611686018427387903)
	nRand := c.Pick(20000, 400000)
	for i := 0; i < nRand; i++ {
		bits := uint(r.IntN(63)) + 1
		vals = append(vals, r.Uint64()>>(64-bits))
	}
	prefixes := [][]byte{{}, {0xaa}, {1, 2, 3, 4, 5, 6, 7, 8, 9}}
	for i, v := range vals {
		p := prefixes[i%len(prefixes)]
		if v > quicwire.MaxVarint {
			c.Count("append:too-large")
		} else {
			c.Count(fmt.Sprintf("append:len%d", len(refEnc(v))))
		}
		out := c.Run("c19.append", hx(p), dec(v))
		c.Run("c19.size", dec(v))
		if v <= quicwire.MaxVarint {
			ok, why := directVarint(v, p)
			c.Direct(ok, "varint "+why, map[string]any{"v": v, "prefix": hx(p), "impl": out})
		} else {
			c.Direct(out == "panic", "values above 2^62-1 must be refused by panic", map[string]any{"v": v})
		}
	}

	// decoder inputs: all two-byte prefixes x lengths 0..9 (quick: sampled first bytes)
	step := c.Pick(7, 1)
	for hi := 0; hi < 65536; hi += step {
		for _, l := range []int{0, 1, 2, 3, 4, 5, 7, 8, 9} {
			b := make([]byte, l)
			if l > 0 {
				b[0] = byte(hi >> 8)
			}
			if l > 1 {
				b[1] = byte(hi)
			}
			for k := 2; k < l; k++ {
				b[k] = byte(r.Uint32())
			}
			if hi%251 == 0 || l <= 2 {
				c.Run("c19.consume", hx(b))
				c.Count(fmt.Sprintf("consume:class%d/len%d", hi>>14, l))
			}
			ok, why := directConsume(b)
			c.Direct(ok, "consume "+why, map[string]any{"b": hx(b)})
		}
	}
	nStr := c.Pick(20000, 300000)
	for i := 0; i < nStr; i++ {
		b := r.Bytes(r.IntN(12))
		c.Run("c19.consume", hx(b))
		if i%4 == 0 {
			c.Run("c19.consumeI64", hx(b))
			c.Run("c19.u32", hx(b))
			c.Run("c19.u64", hx(b))
		}
		ok, why := directConsume(b)
		c.Direct(ok, "consume "+why, map[string]any{"b": hx(b)})
	}

	// length-prefixed strings: declared lengths around the remaining size and huge ones
	nB := c.Pick(4000, 60000)
	for i := 0; i < nB; i++ {
		rem := r.IntN(70)
		body := r.Bytes(rem)
		var declared uint64
		switch r.IntN(11) {
		case 9:
			// a multiple of 2^32 (or 2^16, 2^31, 2^8) plus something that fits: truncation to a narrower type would accept it
			declared = uint64(1+r.IntN(1<<20))<<32 + uint64(r.IntN(rem+1))
		case 10:
			declared = uint64(1)<<[]uint{8, 16, 31, 32, 33, 48, 61}[r.IntN(7)] + uint64(r.IntN(rem+1))
		case 0:
			declared = uint64(rem)
		case 1:
			declared = uint64(rem) + 1
		case 2:
			if rem > 0 {
				declared = uint64(rem) - 1
			}
		case 3:
			declared = 1<<14 - 1 + uint64(r.IntN(3))
		case 4:
			declared = 1<<30 - 1 + uint64(r.IntN(3))
		case 5:
			declared = quicwire.MaxVarint - uint64(r.IntN(2))
		case 6:
			declared = uint64(r.IntN(rem + 1))
		case 7:
			declared = r.Uint64() >> 2
		default:
			declared = uint64(r.IntN(64))
		}
		// possibly non-minimal prefix
		pre := refEnc(declared)
		if r.IntN(4) == 0 {
			pre = nonMinimal(declared, r)
		}
		b := append(append([]byte{}, pre...), body...)
		if declared > uint64(rem) {
			c.Count("vbytes:declared>remaining")
		} else {
			c.Count("vbytes:fits")
		}
		c.Run("c19.vbytes", hx(b))
		ok, why := directVarintBytes(b)
		c.Direct(ok, "varint-bytes "+why, map[string]any{"b": hx(b)})
		// uint8-prefixed
		b8 := append([]byte{byte(declared)}, body...)
		c.Run("c19.u8bytes", hx(b8))
		if i%3 == 0 {
			c.Run("c19.appendVBytes", hx(prefixes[i%3]), hx(body))
			c.Run("c19.appendU8Bytes", hx(prefixes[i%3]), hx(body))
			// round trip on the implementation
			enc := quicwire.AppendVarintBytes(nil, body)
			got, n := quicwire.ConsumeVarintBytes(append(enc, 0xee, 0xef))
			c.Direct(bytes.Equal(got, body) && n == len(enc), "varint-bytes round trip", map[string]any{"body": hx(body)})
			enc8 := quicwire.AppendUint8Bytes(nil, body)
			got8, n8 := quicwire.ConsumeUint8Bytes(append(enc8, 0xee))
			c.Direct(bytes.Equal(got8, body) && n8 == len(enc8), "uint8-bytes round trip", map[string]any{"body": hx(body)})
		}
	}
	c.Run("c19.vbytes", "nil")
	// uint8-prefixed strings: every declared length against every shorter, equal and longer body around the ends of the
	// byte range (a length computed in uint8 arithmetic wraps at 255 + 1), in exact-capacity buffers
	for _, dl := range []int{0, 1, 2, 127, 128, 253, 254, 255} {
		for _, have := range []int{0, 1, dl - 2, dl - 1, dl, dl + 1, 254, 255, 256, 300} {
			if have < 0 {
				continue
			}
			b8 := append([]byte{byte(dl)}, r.Bytes(have)...)
			b8 = b8[:len(b8):len(b8)]
			out := c.Run("c19.u8bytes", hx(b8))
			c.Count("u8bytes:boundary")
			want := "ok nil -1"
			if have >= dl {
				want = fmt.Sprintf("ok %s %d", hxv(b8[1:1+dl]), dl+1)
			}
			c.Direct(out == want, "uint8-prefixed string: wrong result for a declared length against the bytes present", map[string]any{"declared": dl, "present": have, "impl": out, "expected": want})
		}
	}
	c.Run("c19.u8bytes", "nil")
	c.Run("c19.consume", "nil")
	// AppendUint8Bytes refuses more than 255 bytes
	c.Run("c19.appendU8Bytes", "-", hx(make([]byte, 256)))
	c.Run("c19.appendU8Bytes", "-", hx(make([]byte, 255)))

	if c.Thorough() {
		exhaustiveC19(c)
	}
}

func nonMinimal(v uint64, r *Rng) []byte {
	min := len(refEnc(v))
	sizes := []int{}
	for _, n := range []int{2, 4, 8} {
		if n > min {
			sizes = append(sizes, n)
		}
	}
	if len(sizes) == 0 {
		return refEnc(v)
	}
	n := sizes[r.IntN(len(sizes))]
	tag := map[int]uint64{2: 1, 4: 2, 8: 3}[n]
	x := v + tag<<(8*uint(n)-2)
	out := make([]byte, n)
	for i := n - 1; i >= 0; i-- {
		out[i] = byte(x)
		x >>= 8
	}
	return out
}

// exhaustiveC19: every v < 2^30 against the closed form (implementation only).
func exhaustiveC19(c *Ctx) {
	const N = uint64(1) << 30
	workers := runtime.NumCPU()
	var bad atomic.Uint64
	bad.Store(^uint64(0))
	var wg sync.WaitGroup
	chunk := N / uint64(workers)
	for w := 0; w < workers; w++ {
		lo, hi := uint64(w)*chunk, uint64(w+1)*chunk
		if w == workers-1 {
			hi = N
		}
		wg.Add(1)
		go func() {
			defer wg.Done()
			buf := make([]byte, 0, 16)
			for v := lo; v < hi; v++ {
				got := quicwire.AppendVarint(buf[:0], v)
				want := refEnc(v)
				dv, dn := quicwire.ConsumeVarint(got)
				if !bytes.Equal(got, want) || dv != v || dn != len(want) || quicwire.SizeVarint(v) != len(want) {
					for {
						cur := bad.Load()
						if v >= cur || bad.CompareAndSwap(cur, v) {
							break
						}
					}
					return
				}
			}
		}()
	}
	wg.Wait()
	b := bad.Load()
	c.notes["exhaustive_below_2^30"] = N
	c.nDirectChecks += int(N)
	if b != ^uint64(0) {
		c.Direct(false, "exhaustive: varint encode/size/decode disagree with the closed form", map[string]any{"v": b})
	}
}
