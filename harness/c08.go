package main

import (
	"bytes"
	"crypto/elliptic"
	"crypto/sha512"
	"encoding/hex"
	"fmt"
	"io"
	"math/big"
	"strings"

	"golang.org/x/crypto/hkdf"

	"github.com/cloudflare/pat-go/ecdsa"
	"github.com/cloudflare/pat-go/tokens/type3"
)

func init() {
	props["C08"] = runC08
	// c08.id <clientPub> <indexKey>: full flow client -> issuer -> attester with this run's fresh
	// blind, nonce and challenge (arguments 3.. carry them for the replay; the model ignores them)
	replayers["c08.id"] = func(c *Ctx, a []string) string {
		secret, blind, nonce, challenge, origin := unhx(a[2]), unhx(a[3]), unhx(a[4]), unhx(a[5]), string(unhx(a[6]))
		var envIdx int
		fmt.Sscanf(a[7], "%d", &envIdx)
		e := getC07Env(c.Seed, envIdx, c08Origins)
		// only the index key's scalar enters the ID: the key object the caller registers may have been made for any curve
		// (round 6); which wrapper is used follows from the key bytes, so a replay is exact
		ikb := unhx(a[1])
		wrap := []elliptic.Curve{elliptic.P384(), elliptic.P256(), elliptic.P521(), elliptic.P224()}[0]
		if len(ikb) > 0 {
			wrap = []elliptic.Curve{elliptic.P384(), elliptic.P256(), elliptic.P521(), elliptic.P224()}[int(ikb[len(ikb)-1])%4]
		}
		ik, _ := ecdsa.CreateKey(wrap, ikb)
		e.issuer.AddOriginWithIndexKey(origin, ik)
		if len(a) > 9 {
			// a second origin with its own index key is registered afterwards (a[8] = name, a[9] = index key)
			ik2, _ := ecdsa.CreateKey(elliptic.P384(), unhx(a[9]))
			e.issuer.AddOriginWithIndexKey(string(unhx(a[8])), ik2)
		}
		reseedRand(c.Seed, "c08.id:"+a[3]+a[4])
		client := type3.NewRateLimitedClientFromSecret(secret)
		st, err := client.CreateTokenRequest(challenge, nonce, blind, e.issuer.TokenKeyID(), e.issuer.TokenKey(), origin, e.issuer.NameKey())
		if err != nil {
			return "err-create"
		}
		_, brk, err := e.issuer.Evaluate(st.Request().Marshal())
		if err != nil {
			return "err-evaluate"
		}
		// one attester for the whole run, and the same anonymous origin ID throughout: the ID must not
		// depend on what the attester has seen before
		att := c08attester()
		if err := att.VerifyRequest(*st.Request(), blind, st.ClientKey(), []byte("anon")); err != nil {
			return "err-verify"
		}
		idx, err := att.FinalizeIndex(st.ClientKey(), blind, brk, []byte("anon"))
		if err != nil {
			return "err-finalize"
		}
		if !bytes.Equal(st.ClientKey(), unhx(a[0])) {
			return "err-clientkey"
		}
		return "ok " + hxv(idx)
	}
	// c08.index <clientKey> <blind> <blindedRequestKey>: FinalizeIndex alone (client pre-registered)
	replayers["c08.index"] = func(c *Ctx, a []string) string {
		cache := newMemCache()
		cache.m[hex.EncodeToString(unhx(a[0]))] = nil
		att := type3.NewRateLimitedAttester(cache)
		// a registered client needs a state object; obtain one through an honest VerifyRequest of a helper client
		cache2 := newMemCache()
		att = type3.NewRateLimitedAttester(cache2)
		hc := c.notes["c08helper"].(*t3Client)
		if err := att.VerifyRequest(hc.request, hc.blind, hc.pubEnc, nil); err != nil {
			return "err-helper"
		}
		cache2.m[hex.EncodeToString(unhx(a[0]))] = cache2.m[hex.EncodeToString(hc.pubEnc)]
		idx, err := att.FinalizeIndex(unhx(a[0]), unhx(a[1]), unhx(a[2]), []byte("anon"))
		if err != nil {
			return "err"
		}
		return "ok " + hxv(idx)
	}
}

var c08att *type3.RateLimitedAttester

func c08attester() *type3.RateLimitedAttester {
	if c08att == nil {
		c08att = type3.NewRateLimitedAttester(newMemCache())
	}
	return c08att
}

// origin names incl. pairs that a normalising lookup would confuse (trailing dot, case, trailing space, a prefix):
// each is its own origin with its own index key
var c08Origins = []string{"a.example", "b.example", "c.example", "a.example.", "A.example", "a.example ", "a.exampl", "b.example.", "c.example/"}

// c08Ref: the stated formula computed without the repository's key-blinding code: HKDF-SHA-384 with the client key as
// salt over the compressed encoding of the client key multiplied by hash_to_field(index key bytes ‖ 0x00 ‖ context)
// (math/big scalar, circl's hash-to-field, the standard library's curve), info "IssuerOriginAlias"
func c08Ref(cl *t3Client, indexKey []byte) []byte {
	bp := refBlind("P-384", cl.sk.X, cl.sk.Y, new(big.Int).SetBytes(indexKey), t3ctx("IssuerBlind"))
	ref := make([]byte, 48)
	if bp == nil {
		return ref
	}
	io.ReadFull(hkdf.New(sha512.New384, elliptic.MarshalCompressed(elliptic.P384(), bp[0], bp[1]), cl.pubEnc, []byte("IssuerOriginAlias")), ref)
	return ref
}

func runC08(c *Ctx) {
	r := NewRng(c.Seed, "c08")
	helper := newT3Client(r)
	c.notes["c08helper"] = helper
	defer delete(c.notes, "c08helper")
	nPairs := c.Pick(10, 150)
	seen := map[string]string{}
	origins := c08Origins
	for p := 0; p < nPairs; p++ {
		cl := newT3Client(r)
		ikBytes := r.Bytes(48)
		if p%7 == 3 {
			ikBytes = append([]byte{0, 0, 0}, r.Bytes(20)...) // short index key with leading zeros
		}
		var first string
		var blind0 []byte
		for rep := 0; rep < 4; rep++ {
			blind := r.Bytes(48)
			if rep == 0 {
				blind0 = blind
			}
			switch rep {
			case 1:
				blind = append([]byte{0, 0}, r.Bytes(30)...) // leading zeros
			case 2:
				blind = bytes.Repeat([]byte{0xff}, 48) // >= N
				blind[47] = byte(r.Uint32())
			}
			out := c.Run("c08.id", hx(cl.pubEnc), hx(ikBytes), hx(cl.secret), hx(blind), hx(r.Bytes(32)), hx(r.Bytes(r.IntN(50))), hx([]byte(origins[(p+3*rep)%len(origins)])), fmt.Sprint(p%2))
			c.Count("id:flow")
			in := map[string]any{"client": hx(cl.pubEnc), "indexKey": hx(ikBytes), "blind": hx(blind), "impl": out}
			if !c.DirectOK(strings.HasPrefix(out, "ok "), "honest flow did not produce an anonymous issuer origin ID", in) {
				continue
			}
			if rep == 0 {
				first = out
			}
			// the stated formula, computed outside the attester with x/crypto's HKDF
			ref := c08Ref(cl, ikBytes)
			c.Direct(out == "ok "+hxv(ref), "ID is not HKDF-SHA-384(salt = client key, ikm = client key blinded by the index key, info = IssuerOriginAlias)", in)
			c.Direct(out == first, "ID differs between two requests of the same client for the same index key", in)
		}
		if first != "" {
			key := hx(cl.pubEnc) + "/" + hx(ikBytes)
			if prev, ok := seen[first]; ok && prev != key {
				c.Direct(false, "two different (client, index key) pairs share an ID", map[string]any{"a": prev, "b": key})
			}
			seen[first] = key
		}
		// the same client with the same request blind (hence the same request key) at another origin with another
		// index key, on the same issuer object: the ID is that of the new index key
		{
			ik2 := r.Bytes(48)
			o := c.Run("c08.id", hx(cl.pubEnc), hx(ik2), hx(cl.secret), hx(blind0), hx(r.Bytes(32)), "-", hx([]byte(origins[(p+1)%len(origins)])), fmt.Sprint(p%2))
			c.Count("id:same-blind-other-index-key")
			ref := c08Ref(cl, ik2)
			c.Direct(o == "ok "+hxv(ref) && o != first, "ID for a second index key, requested with the same request blind, is not the ID of that index key",
				map[string]any{"client": hx(cl.pubEnc), "indexKey": hx(ik2), "blind": hx(blind0), "impl": o, "first": first})
		}
		// two origins whose names a normalising map would confuse, each with its own index key, both registered before the
		// request for the first: the ID is that of the first origin's key
		{
			pairs := [][2]string{{"shop.example", "Shop.example"}, {"Shop.Example", "shop.example"}, {"shop.example", "shop.example."}, {"shop.example.", "shop.example"},
				{"shop.example", " shop.example"}, {"shop.example", "shop.example "}, {"xn--shop", "XN--SHOP"}}
			// a long name and the name a narrower length computation would cut it to (block count or byte count kept in 8 bits,
			// or only the first block): both registered, each with its own key
			mkLong := func(n int) string {
				b := r.Bytes(n)
				for k := range b {
					b[k] = 'a' + b[k]%26
				}
				return string(b)
			}
			l1 := mkLong(8193 + r.IntN(32))
			pairs = append(pairs, [2]string{l1, l1[:32]})
			l2 := mkLong(8192 + 64 + r.IntN(32))
			pairs = append(pairs, [2]string{l2, l2[:((len(l2)+32-len(l2)%32)/32%256)*32]})
			l3 := mkLong(300 + r.IntN(200))
			pairs = append(pairs, [2]string{l3, l3[:(len(l3)+32-len(l3)%32)%256]}, [2]string{l3, l3[:32]}, [2]string{l3[:32], l3})
			pr := pairs[p%len(pairs)]
			ikA, ikB := r.Bytes(48), r.Bytes(48)
			o := c.Run("c08.id", hx(cl.pubEnc), hx(ikA), hx(cl.secret), hx(r.Bytes(48)), hx(r.Bytes(32)), "-", hx([]byte(pr[0])), fmt.Sprint(p%2), hx([]byte(pr[1])), hx(ikB))
			c.Count("id:near-variant-origins")
			ref := c08Ref(cl, ikA)
			c.Direct(o == "ok "+hxv(ref), "with a second, similarly named origin registered, the ID is not derived from the requested origin's own index key",
				map[string]any{"origin": pr[0], "other": pr[1], "impl": o})
		}
		// two requests of one client in flight at once at one attester (other blinds, other origins and index keys): both are
		// verified before either index is finalized, in both finalization orders
		{
			ik1, ik2 := r.Bytes(48), r.Bytes(48)
			b1, b2 := r.Bytes(48), r.Bytes(48)
			e := getC07Env(c.Seed, p%2, c08Origins)
			k1, _ := ecdsa.CreateKey(elliptic.P384(), ik1)
			k2, _ := ecdsa.CreateKey(elliptic.P384(), ik2)
			e.issuer.AddOriginWithIndexKey("inflight-1.example", k1)
			e.issuer.AddOriginWithIndexKey("inflight-2.example", k2)
			reseedRand(c.Seed, "c08.inflight:"+hx(b1))
			client := type3.NewRateLimitedClientFromSecret(cl.secret)
			var got [2][]byte
			var errs []string
			if Try(func() {
				st1, err := client.CreateTokenRequest(r.Bytes(9), r.Bytes(32), b1, e.issuer.TokenKeyID(), e.issuer.TokenKey(), "inflight-1.example", e.issuer.NameKey())
				must(err)
				st2, err := client.CreateTokenRequest(r.Bytes(9), r.Bytes(32), b2, e.issuer.TokenKeyID(), e.issuer.TokenKey(), "inflight-2.example", e.issuer.NameKey())
				must(err)
				_, brk1, err := e.issuer.Evaluate(st1.Request().Marshal())
				must(err)
				_, brk2, err := e.issuer.Evaluate(st2.Request().Marshal())
				must(err)
				att := c08attester()
				note := func(err error) {
					if err != nil {
						errs = append(errs, err.Error())
					}
				}
				note(att.VerifyRequest(*st1.Request(), b1, st1.ClientKey(), []byte("anon-inflight-1")))
				note(att.VerifyRequest(*st2.Request(), b2, st2.ClientKey(), []byte("anon-inflight-2")))
				var err1, err2 error
				if p%2 == 0 {
					got[0], err1 = att.FinalizeIndex(st1.ClientKey(), b1, brk1, []byte("anon-inflight-1"))
					got[1], err2 = att.FinalizeIndex(st2.ClientKey(), b2, brk2, []byte("anon-inflight-2"))
				} else {
					got[1], err2 = att.FinalizeIndex(st2.ClientKey(), b2, brk2, []byte("anon-inflight-2"))
					got[0], err1 = att.FinalizeIndex(st1.ClientKey(), b1, brk1, []byte("anon-inflight-1"))
				}
				note(err1)
				note(err2)
			}) {
				errs = append(errs, "panic")
			}
			c.Count("id:two-requests-in-flight")
			c.Direct(len(errs) == 0 && bytes.Equal(got[0], c08Ref(cl, ik1)) && bytes.Equal(got[1], c08Ref(cl, ik2)),
				"two requests of one client verified before either index was finalized: an ID is not that of its origin's index key",
				map[string]any{"client": hx(cl.pubEnc), "secret": hx(cl.secret), "indexKey1": hx(ik1), "indexKey2": hx(ik2), "blind1": hx(b1), "blind2": hx(b2),
					"first_finalized": 1 + p%2, "id1": hx(got[0]), "id2": hx(got[1]), "errors": strings.Join(errs, "; ")})
		}
		// same index key, another client; same client, another index key -> different IDs (checked through `seen`)
		if p%3 == 0 {
			cl2 := newT3Client(r)
			o := c.Run("c08.id", hx(cl2.pubEnc), hx(ikBytes), hx(cl2.secret), hx(r.Bytes(48)), hx(r.Bytes(32)), "-", hx([]byte("a.example")), "0")
			c.Direct(strings.HasPrefix(o, "ok ") && o != first, "distinct clients share an ID for one index key (or the flow failed)", map[string]any{"indexKey": hx(ikBytes), "impl": o})
			o2 := c.Run("c08.id", hx(cl.pubEnc), hx(r.Bytes(48)), hx(cl.secret), hx(r.Bytes(48)), hx(r.Bytes(32)), "-", hx([]byte("a.example")), "0")
			c.Direct(strings.HasPrefix(o2, "ok ") && o2 != first, "distinct index keys share an ID for one client (or the flow failed)", map[string]any{"client": hx(cl.pubEnc), "impl": o2})
		}
		// FinalizeIndex alone with adversarial encodings
		ik, _ := ecdsa.CreateKey(elliptic.P384(), ikBytes)
		brk := issuerBlinded(cl, ik)
		c.Run("c08.index", hx(cl.pubEnc), hx(cl.blind), hx(brk))
		c.Run("c08.index", hx(cl.pubEnc), hx(append([]byte{0}, cl.blind...)), hx(brk))
		c.Run("c08.index", hx(cl.pubEnc), hx(r.Bytes(48)), hx(brk)) // wrong blind: some other ID
		c.Run("c08.index", hx(cl.pubEnc), "-", hx(brk))
		bad := append([]byte{}, brk...)
		bad[0] ^= 6
		c.Run("c08.index", hx(cl.pubEnc), hx(cl.blind), hx(bad))
		c.Run("c08.index", hx(cl.pubEnc), hx(cl.blind), hx(brk[:48]))
		c.Run("c08.index", hx(r.Bytes(49)), hx(cl.blind), hx(brk)) // client key is only a salt here
		c.Count("index:direct")
	}
}
