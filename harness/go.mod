module verifharness

go 1.23.0

require (
	github.com/cisco/go-hpke v0.0.0-20210524174249-dd22b38cf960
	github.com/cloudflare/circl v1.3.7
	github.com/cloudflare/pat-go v0.0.0
	golang.org/x/crypto v0.35.0
)

require (
	git.schwanenlied.me/yawning/x448.git v0.0.0-20170617130356-01b048fb03d6 // indirect
	github.com/bwesterb/go-ristretto v1.2.3 // indirect
	github.com/cisco/go-tls-syntax v0.0.0-20200617162716-46b0cfb76b9b // indirect
	golang.org/x/sys v0.30.0 // indirect
)

replace github.com/cloudflare/pat-go => /repo
