module verifharness

go 1.23.0

require (
	github.com/cisco/go-hpke v0.0.0-20210524174249-dd22b38cf960
	github.com/cloudflare/circl v1.3.7
	github.com/cloudflare/pat-go v0.0.0
	golang.org/x/crypto v0.35.0
)

replace github.com/cloudflare/pat-go => /repo
