package main

import (
	"bytes"
	"crypto/elliptic"
	"fmt"
	"math/big"
	"runtime"
	"sort"
	"strconv"
	"strings"
	"time"

	"github.com/cloudflare/circl/group"
	"github.com/cloudflare/circl/oprf"
	"github.com/cloudflare/circl/zk/dleq"
	"github.com/cloudflare/pat-go/ecdsa"
	"github.com/cloudflare/pat-go/ed25519"
	"github.com/cloudflare/pat-go/quicwire"
	"github.com/cloudflare/pat-go/tokens"
	"github.com/cloudflare/pat-go/tokens/batched"
	"github.com/cloudflare/pat-go/tokens/type1"
	"github.com/cloudflare/pat-go/tokens/type2"
	"github.com/cloudflare/pat-go/tokens/type3"
	"github.com/cloudflare/pat-go/tokens/type5"
	"github.com/cloudflare/pat-go/util"
)

type c03World struct {
	i1   *type1.BasicPrivateIssuer
	i2   *type2.BasicPublicIssuer
	i5   *type5.BatchedPrivateIssuer
	env  *c07Env
	st1  type1.BasicPrivateTokenRequestState
	st2  type2.BasicPublicTokenRequestState
	st3  type3.RateLimitedTokenRequestState
	st5  type5.BatchedPrivateTokenRequestState
	cl3  *t3Client
	bi   *batched.BasicBatchedIssuer
	resp map[string][]byte // honest messages by name
	edPk ed25519.PublicKey
	ecPk *ecdsa.PublicKey
}

func newC03World(c *Ctx, r *Rng) *c03World {
	w := &c03World{resp: map[string][]byte{}}
	reseedRand(c.Seed, "c03-world")
	w.i1 = type1.NewBasicPrivateIssuer(oprfKey(oprf.SuiteP384, []byte("c03-1")))
	w.i2 = type2.NewBasicPublicIssuer(rsaKey(2))
	w.i5 = type5.NewBatchedPrivateIssuer(oprfKey(oprf.SuiteRistretto255, []byte("c03-5")))
	w.env = getC07Env(c.Seed, 3, []string{"origin.example"})
	ch, nonce := []byte("challenge"), bytes.Repeat([]byte{9}, 32)
	var err error
	w.st1, err = type1.NewBasicPrivateClient().CreateTokenRequest(ch, nonce, w.i1.TokenKeyID(), w.i1.TokenKey())
	must(err)
	w.st2, err = type2.NewBasicPublicClient().CreateTokenRequest(ch, nonce, w.i2.TokenKeyID(), w.i2.TokenKey())
	must(err)
	w.cl3 = newT3Client(r)
	w.st3, err = type3.NewRateLimitedClientFromSecret(w.cl3.secret).CreateTokenRequest(ch, nonce, w.cl3.blind, w.env.issuer.TokenKeyID(), w.env.issuer.TokenKey(), "origin.example", w.env.issuer.NameKey())
	must(err)
	w.st5, err = type5.NewBatchedPrivateClient().CreateTokenRequest(ch, [][]byte{nonce, bytes.Repeat([]byte{8}, 32), bytes.Repeat([]byte{7}, 32)}, w.i5.TokenKeyID(), w.i5.TokenKey())
	must(err)
	m := w.resp
	m["req1"], m["req2"], m["req3"], m["req5"] = w.st1.Request().Marshal(), w.st2.Request().Marshal(), w.st3.Request().Marshal(), w.st5.Request().Marshal()
	m["resp1"], err = w.i1.Evaluate(w.st1.Request())
	must(err)
	m["resp2"], err = w.i2.Evaluate(w.st2.Request())
	must(err)
	var brk []byte
	m["resp3"], brk, err = w.env.issuer.Evaluate(m["req3"])
	must(err)
	m["brk"] = brk
	m["resp5"], err = w.i5.Evaluate(w.st5.Request())
	must(err)
	t1, err := w.st1.FinalizeToken(m["resp1"])
	must(err)
	t2, err := w.st2.FinalizeToken(m["resp2"])
	must(err)
	t3, err := w.st3.FinalizeToken(m["resp3"])
	must(err)
	t5, err := w.st5.FinalizeTokens(m["resp5"])
	must(err)
	m["tok1"], m["tok2"], m["tok3"], m["tok5"] = t1.Marshal(), t2.Marshal(), t3.Marshal(), t5[0].Marshal()
	m["challenge"] = tokens.TokenChallenge{TokenType: 2, IssuerName: "issuer.example", RedemptionNonce: nonce, OriginInfo: []string{"a.example", "b.example"}}.Marshal()
	// origin lists with empty names (trailing, leading, doubled and lone commas) and single-character names
	for i, oi := range [][]string{{"a.example", ""}, {"", "b.example"}, {"a.example", "", "b.example"}, {"", ""}, {".", "a."}, {"a", ".", ""}} {
		m[fmt.Sprintf("challenge-o%d", i)] = tokens.TokenChallenge{TokenType: 2, IssuerName: "issuer.example", RedemptionNonce: nonce, OriginInfo: oi}.Marshal()
	}
	m["encap"] = w.env.issuer.NameKey().Marshal()
	m["inner"] = type3.VerifNewInnerTokenRequest(7, r.Bytes(256), r.Bytes(64)).Marshal()
	br, _ := batched.NewBasicClient().CreateTokenRequest([]tokens.TokenRequestWithDetails{w.st1.Request(), w.st2.Request(), w.st1.Request()})
	m["batch"] = br.Marshal()
	reg := getC05Reg(c.Seed)
	w.bi = batched.NewBasicBatchedIssuer(reg["1a"], reg["2a"])
	wire := &batched.BatchedTokenRequest{}
	wire.Unmarshal(m["batch"])
	m["batchresp"], _ = batched.NewBasicBatchedIssuer(newAd1(c.Seed, "w1", []byte("c03-1")), newAd2(c.Seed, "w2", 2)).EvaluateBatch(wire)
	m["spki"], _ = util.MarshalTokenKeyPSSOID(w.i2.TokenKey())
	m["spki-legacy"], _ = util.MarshalTokenKey(w.i2.TokenKey(), true)
	// signatures
	sk, _ := ecdsa.CreateKey(elliptic.P256(), r.Bytes(32))
	w.ecPk = &sk.PublicKey
	m["ecdsa-der"], _ = ecdsa.SignASN1(theRand, sk, bytes.Repeat([]byte{5}, 32))
	pk, esk, _ := ed25519.GenerateKey(theRand)
	w.edPk = pk
	m["ed-sig"] = ed25519.Sign(esk, []byte("message"))
	m["varint-bytes"] = quicwire.AppendVarintBytes(nil, []byte("0123456789"))
	return w
}

type c03Entry struct {
	name string
	base []string
	call func(w *c03World, b []byte) bool // true = accepted / ok
}

func c03Entries() []c03Entry {
	return []c03Entry{
		{"tokens.UnmarshalTokenChallenge", []string{"challenge", "challenge-o0", "challenge-o1", "challenge-o2", "challenge-o3", "challenge-o4", "challenge-o5"}, func(w *c03World, b []byte) bool { _, err := tokens.UnmarshalTokenChallenge(b); return err == nil }},
		{"type1.UnmarshalPrivateToken", []string{"tok1"}, func(w *c03World, b []byte) bool { _, err := type1.UnmarshalPrivateToken(b); return err == nil }},
		{"type2.UnmarshalToken", []string{"tok2"}, func(w *c03World, b []byte) bool { _, err := type2.UnmarshalToken(b); return err == nil }},
		{"type3.UnmarshalToken", []string{"tok3"}, func(w *c03World, b []byte) bool { _, err := type3.UnmarshalToken(b); return err == nil }},
		{"type5.UnmarshalBatchedPrivateToken", []string{"tok5"}, func(w *c03World, b []byte) bool { _, err := type5.UnmarshalBatchedPrivateToken(b); return err == nil }},
		{"type1.Request.Unmarshal+Evaluate", []string{"req1"}, func(w *c03World, b []byte) bool {
			q := &type1.BasicPrivateTokenRequest{}
			if !q.Unmarshal(b) {
				return false
			}
			_, err := w.i1.Evaluate(q)
			return err == nil
		}},
		{"type2.Request.Unmarshal+Evaluate", []string{"req2"}, func(w *c03World, b []byte) bool {
			q := &type2.BasicPublicTokenRequest{}
			if !q.Unmarshal(b) {
				return false
			}
			_, err := w.i2.Evaluate(q)
			return err == nil
		}},
		{"type3.Request.Unmarshal", []string{"req3"}, func(w *c03World, b []byte) bool { return (&type3.RateLimitedTokenRequest{}).Unmarshal(b) }},
		{"type3.Inner.Unmarshal", []string{"inner"}, func(w *c03World, b []byte) bool { return (&type3.InnerTokenRequest{}).Unmarshal(b) }},
		{"type3.UnmarshalEncapKey", []string{"encap"}, func(w *c03World, b []byte) bool { _, err := type3.UnmarshalEncapKey(b); return err == nil }},
		{"type5.Request.Unmarshal+Evaluate", []string{"req5"}, func(w *c03World, b []byte) bool {
			q := &type5.BatchedPrivateTokenRequest{}
			if !q.Unmarshal(b) {
				return false
			}
			_, err := w.i5.Evaluate(q)
			return err == nil
		}},
		{"batched.Request.Unmarshal+EvaluateBatch", []string{"batch"}, func(w *c03World, b []byte) bool {
			q := &batched.BatchedTokenRequest{}
			if !q.Unmarshal(b) {
				return false
			}
			_, err := w.bi.EvaluateBatch(q)
			return err == nil
		}},
		{"batched.UnmarshalBatchedTokenResponses", []string{"batchresp"}, func(w *c03World, b []byte) bool {
			_, err := batched.UnmarshalBatchedTokenResponses(b)
			return err == nil
		}},
		{"util.UnmarshalTokenKey", []string{"spki", "spki-legacy"}, func(w *c03World, b []byte) bool { _, err := util.UnmarshalTokenKey(b); return err == nil }},
		{"type1.FinalizeToken", []string{"resp1"}, func(w *c03World, b []byte) bool { _, err := w.st1.FinalizeToken(b); return err == nil }},
		{"type2.FinalizeToken", []string{"resp2"}, func(w *c03World, b []byte) bool { _, err := w.st2.FinalizeToken(b); return err == nil }},
		{"type3.FinalizeToken", []string{"resp3"}, func(w *c03World, b []byte) bool { _, err := w.st3.FinalizeToken(b); return err == nil }},
		{"type5.FinalizeTokens", []string{"resp5"}, func(w *c03World, b []byte) bool { _, err := w.st5.FinalizeTokens(b); return err == nil }},
		{"type3.Issuer.Evaluate", []string{"req3"}, func(w *c03World, b []byte) bool { _, _, err := w.env.issuer.Evaluate(b); return err == nil }},
		{"type1.Verify(decoded)", []string{"tok1"}, func(w *c03World, b []byte) bool {
			t, err := type1.UnmarshalPrivateToken(b)
			return err == nil && w.i1.Verify(t) == nil
		}},
		{"type5.Verify(decoded)", []string{"tok5"}, func(w *c03World, b []byte) bool {
			t, err := type5.UnmarshalBatchedPrivateToken(b)
			return err == nil && w.i5.Verify(t) == nil
		}},
		{"type3.Attester.VerifyRequest(decoded)", []string{"req3"}, func(w *c03World, b []byte) bool {
			q := &type3.RateLimitedTokenRequest{}
			if !q.Unmarshal(b) {
				return false
			}
			return type3.NewRateLimitedAttester(newMemCache()).VerifyRequest(*q, w.cl3.blind, w.cl3.pubEnc, nil) == nil
		}},
		{"type3.Attester.VerifyRequest(blind,clientKey)", []string{"brk"}, func(w *c03World, b []byte) bool {
			a := type3.NewRateLimitedAttester(newMemCache())
			e1 := a.VerifyRequest(*w.st3.Request(), b, w.cl3.pubEnc, nil)
			e2 := a.VerifyRequest(*w.st3.Request(), w.cl3.blind, b, nil)
			return e1 == nil && e2 == nil
		}},
		{"type3.Attester.VerifyRequest(raw fields)", []string{"ed-sig", "brk"}, func(w *c03World, b []byte) bool {
			a := type3.NewRateLimitedAttester(newMemCache())
			q := *w.st3.Request()
			q.Signature = b
			e1 := a.VerifyRequest(q, w.cl3.blind, w.cl3.pubEnc, nil)
			q = *w.st3.Request()
			q.RequestKey = b
			e2 := a.VerifyRequest(q, w.cl3.blind, w.cl3.pubEnc, nil)
			q = *w.st3.Request()
			q.EncryptedTokenRequest, q.NameKeyID = b, b
			e3 := a.VerifyRequest(q, w.cl3.blind, w.cl3.pubEnc, nil)
			return e1 == nil && e2 == nil && e3 == nil
		}},
		{"type3.Attester.FinalizeIndex", []string{"brk"}, func(w *c03World, b []byte) bool {
			cache := newMemCache()
			a := type3.NewRateLimitedAttester(cache)
			a.VerifyRequest(*w.st3.Request(), w.cl3.blind, w.cl3.pubEnc, nil)
			_, e1 := a.FinalizeIndex(w.cl3.pubEnc, w.cl3.blind, b, []byte("x"))
			_, e2 := a.FinalizeIndex(w.cl3.pubEnc, b, w.resp["brk"], []byte("x"))
			_, e3 := a.FinalizeIndex(b, w.cl3.blind, w.resp["brk"], b)
			return e1 == nil && e2 == nil && e3 == nil
		}},
		{"ecdsa.VerifyASN1", []string{"ecdsa-der"}, func(w *c03World, b []byte) bool { return ecdsa.VerifyASN1(w.ecPk, bytes.Repeat([]byte{5}, 32), b) }},
		{"ecdsa.Verify(r,s,hash from bytes)", []string{"ecdsa-der"}, func(w *c03World, b []byte) bool {
			h := len(b) / 2
			r, s := new(big.Int).SetBytes(b[:h]), new(big.Int).SetBytes(b[h:])
			if len(b) > 0 && b[0]&1 == 1 {
				r.Neg(r)
			}
			return ecdsa.Verify(w.ecPk, b, r, s)
		}},
		{"ed25519.Verify", []string{"ed-sig"}, func(w *c03World, b []byte) bool {
			ok := ed25519.Verify(w.edPk, []byte("message"), b)
			if len(b) >= 32 {
				ed25519.Verify(ed25519.PublicKey(b[:32]), b, w.resp["ed-sig"])
			}
			return ok
		}},
		{"quicwire.Consume*", []string{"varint-bytes"}, func(w *c03World, b []byte) bool {
			quicwire.ConsumeVarint(b)
			quicwire.ConsumeVarintInt64(b)
			quicwire.ConsumeUint32(b)
			quicwire.ConsumeUint64(b)
			quicwire.ConsumeUint8Bytes(b)
			_, n := quicwire.ConsumeVarintBytes(b)
			return n >= 0
		}},
	}
}

func c03Mutations(r *Rng, base []byte, n int, thorough bool) [][]byte {
	var out [][]byte
	// every truncation (sampled for long messages) and extensions by 1..8 bytes
	step := 1
	if len(base) > 240 && !thorough {
		step = len(base) / 40
	}
	for k := 0; k <= len(base); k++ {
		// every cut in the first and last 110 bytes (headers, trailing signatures/proofs), sampled in between
		if k <= 110 || k >= len(base)-110 || k%step == 0 {
			out = append(out, base[:k:k])
		}
	}
	for k := 1; k <= 8; k++ {
		out = append(out, append(append([]byte{}, base...), r.Bytes(k)...))
	}
	// structural bytes: the first 8 and positions of likely length/count/status fields get every value class
	classes := []byte{0, 1, 2, 3, 5, 0x3f, 0x40, 0x41, 0x7f, 0x80, 0xbf, 0xc0, 0xfe, 0xff}
	for p := 0; p < len(base) && p < 8; p++ {
		for _, v := range classes {
			m := append([]byte{}, base...)
			m[p] = v
			out = append(out, m)
		}
	}
	// huge varint prefixes in front of the rest
	for _, v := range []uint64{1<<62 - 1, 1 << 61, 1 << 32, 1<<30 - 1, 1 << 30, 1 << 31, 1 << 14, uint64(len(base)) + 1} {
		out = append(out, append(refEnc(v), base...))
		if len(base) > 3 {
			out = append(out, append(append([]byte{}, base[:3]...), append(refEnc(v), base[3:]...)...))
		}
	}
	for i := 0; i < n; i++ {
		m := append([]byte{}, base...)
		switch r.IntN(4) {
		case 0:
			if len(m) > 0 {
				m[r.IntN(len(m))] ^= 1 << r.IntN(8)
			}
		case 1:
			if len(m) > 0 {
				p := r.IntN(len(m))
				m[p] = classes[r.IntN(len(classes))]
			}
		case 2:
			m = r.Bytes(r.IntN(600))
		default:
			if len(m) > 4 {
				a, b := r.IntN(len(m)), r.IntN(len(m))
				if a > b {
					a, b = b, a
				}
				m = append(m[:a:a], m[b:]...)
			}
		}
		out = append(out, m)
	}
	out = append(out, c03Reframes(r, base)...)
	out = append(out, nil, []byte{})
	return out
}

// c03Reframes: for every position that plausibly holds a length field (QUIC varint or big-endian uint16) covering a
// large part of what follows, the covered region grown by 1..3 stray bytes or shrunk by 1..3 bytes *with the length
// field adjusted to match* — so that the stray or missing bytes are inside the declared length, not behind it.
func c03Reframes(r *Rng, base []byte) [][]byte {
	var out [][]byte
	emit := func(off, hdr int, v uint64, enc func(uint64) []byte) {
		end := off + hdr + int(v)
		for _, k := range []int{1, 2, 3} {
			grown := append(append(append(append([]byte{}, base[:off]...), enc(v+uint64(k))...), base[off+hdr:end]...), r.Bytes(k)...)
			out = append(out, append(grown, base[end:]...))
			if int(v) > k {
				shrunk := append(append(append([]byte{}, base[:off]...), enc(v-uint64(k))...), base[off+hdr:end-k]...)
				out = append(out, append(shrunk, base[end:]...))
			}
		}
	}
	for off := 0; off < len(base) && off < 300; off++ {
		rest := len(base) - off
		if v, n := quicwire.ConsumeVarint(base[off:]); n > 0 && v > 0 && n+int(v) <= rest && 2*(n+int(v)) >= rest && v < 1<<20 {
			emit(off, n, v, refEnc)
		}
		if rest >= 2 {
			v := uint64(base[off])<<8 | uint64(base[off+1])
			if v > 0 && 2+int(v) <= rest && 2*(2+int(v)) >= rest && v+3 < 65536 {
				emit(off, 2, v, func(x uint64) []byte { return []byte{byte(x >> 8), byte(x)} })
			}
		}
	}
	return out
}

func init() {
	props["C03"] = runC03
	replayers["c03.probe"] = func(c *Ctx, a []string) string { return "-" }
	// literal models with dependency oracle columns
	replayers["c03.req5"] = func(c *Ctx, a []string) string {
		q := &type5.BatchedPrivateTokenRequest{}
		if !q.Unmarshal(unhx(a[0])) {
			return "err"
		}
		return fmt.Sprintf("ok %d %s", q.TokenKeyID, hxList(q.BlindedReq))
	}
	replayers["c03.batch"] = func(c *Ctx, a []string) string {
		q := &batched.BatchedTokenRequest{}
		if !q.Unmarshal(unhx(a[0])) {
			return "err"
		}
		var ss []string
		for _, x := range q.VerifRequests() {
			ss = append(ss, fmtReqWD(x))
		}
		return "ok " + strings.Join(ss, ",")
	}
	replayers["c03.batchresp"] = func(c *Ctx, a []string) string {
		rs, err := batched.UnmarshalBatchedTokenResponses(unhx(a[0]))
		if err != nil {
			return "err"
		}
		return "ok " + hxList(rs)
	}
	replayers["c03.unpad"] = func(c *Ctx, a []string) string {
		return "ok " + hxv([]byte(type3.VerifUnpadOriginName(unhx(a[0]))))
	}
	// c03.t1fin <resp> <elemOk> <proofOk> <finalizeOk>: FinalizeToken of the world's type-1 state
	replayers["c03.t1fin"] = func(c *Ctx, a []string) string {
		w := c.notes["c03world"].(*c03World)
		if _, err := w.st1.FinalizeToken(unhx(a[0])); err != nil {
			return "err"
		}
		return "ok"
	}
	replayers["c03.t5fin"] = func(c *Ctx, a []string) string {
		w := c.notes["c03world"].(*c03World)
		if _, err := w.st5.FinalizeTokens(unhx(a[0])); err != nil {
			return "err"
		}
		return "ok"
	}
}

func b2s(b bool) string {
	if b {
		return "1"
	}
	return "0"
}

func runC03(c *Ctx) {
	r := NewRng(c.Seed, "c03")
	w := newC03World(c, r)
	c.notes["c03world"] = w
	defer delete(c.notes, "c03world")
	entries := c03Entries()
	c.notes["entry_points"] = len(entries)
	var ms runtime.MemStats
	for _, e := range entries {
		nAcc, nRej := 0, 0
		for _, bn := range e.base {
			base := w.resp[bn]
			inputs := append([][]byte{base}, c03Mutations(r, base, c.Pick(60, 1500), c.Thorough())...)
			for _, in := range inputs {
				// spare capacity behind the input must never be read: place it inside a larger poisoned buffer
				buf := make([]byte, len(in), len(in)+64)
				copy(buf, in)
				for k := len(in); k < cap(buf); k++ {
					buf[:cap(buf)][k] = 0xa5
				}
				if in == nil {
					buf = nil
				}
				runtime.ReadMemStats(&ms)
				before := ms.TotalAlloc
				t0 := time.Now()
				var ok bool
				out := c.Op("c03.probe "+strings.ReplaceAll(e.name, " ", "_")+" "+hx(in), func() string {
					// once with no spare capacity (reading past len panics) and once inside the poisoned buffer
					// (reading past len would silently use the caller's bytes): the verdicts must agree
					exact := append(make([]byte, 0, len(in)), in...)
					if in == nil {
						exact = nil
					}
					ok = e.call(w, exact)
					if ok2 := e.call(w, buf); ok2 != ok {
						return "verdict-depends-on-spare-capacity"
					}
					return "-"
				})
				dt := time.Since(t0)
				runtime.ReadMemStats(&ms)
				alloc := ms.TotalAlloc - before
				if ok {
					nAcc++
				} else {
					nRej++
				}
				inp := map[string]any{"entry": e.name, "input": hx(in)}
				if out == "panic" {
					inp["panic"] = firstLines(lastPanic, 12)
					c.Direct(false, "panic on peer-supplied bytes", inp)
					continue
				}
				c.Direct(out == "-", "outcome depends on bytes behind the input's length", inp)
				c.Direct(alloc <= 4<<20+512*uint64(len(in)), fmt.Sprintf("allocated %d bytes for %d bytes of input", alloc, len(in)), inp)
				c.Direct(dt < 3*time.Second, fmt.Sprintf("took %v", dt), inp)
			}
		}
		c.Count(fmt.Sprintf("%s:accepted", e.name))
		c.hist[e.name+":accepted"] = nAcc
		c.hist[e.name+":rejected"] = nRej
	}
	// long lists through the list-shaped decoders, one call each: what a decode allocates and what it keeps alive must stay
	// proportional to the input (round 6: each element of a batch copying the rest of the buffer is quadratic and only
	// shows beyond about a thousand elements)
	{
		t1 := w.resp["req1"]
		t2 := w.resp["req2"]
		var big1, bigMix []byte
		for k := 0; k < c.Pick(2000, 6000); k++ {
			big1 = append(big1, t1...)
			if k%8 == 0 {
				bigMix = append(bigMix, t2...)
			} else {
				bigMix = append(bigMix, t1...)
			}
		}
		frame := func(b []byte) []byte { return append(quicwire.AppendVarint(nil, uint64(len(b))), b...) }
		var origins []byte
		for k := 0; k < 4000; k++ {
			origins = append(origins, []byte("o"+strconv.Itoa(k)+".ex,")...)
		}
		origins = origins[:len(origins)-1]
		chal := (&tokens.TokenChallenge{TokenType: 2, IssuerName: "issuer.example", RedemptionNonce: make([]byte, 32), OriginInfo: strings.Split(string(origins), ",")}).Marshal()
		honest5 := w.resp["req5"]
		_, off5 := quicwire.ConsumeVarint(honest5[3:])
		var els []byte
		for k := 0; k < 4000; k++ {
			els = append(els, honest5[3+off5:3+off5+32]...)
		}
		req5 := append(append(append([]byte{}, honest5[:3]...), quicwire.AppendVarint(nil, uint64(len(els)))...), els...)
		for _, p := range []struct {
			name string
			in   []byte
			call func(b []byte) any
		}{
			{"batched.Request.Unmarshal(2000×type1)", frame(big1), func(b []byte) any { q := &batched.BatchedTokenRequest{}; q.Unmarshal(b); return q }},
			{"batched.Request.Unmarshal(mixed)", frame(bigMix), func(b []byte) any { q := &batched.BatchedTokenRequest{}; q.Unmarshal(b); return q }},
			{"tokens.UnmarshalTokenChallenge(4000 origins)", chal, func(b []byte) any { q, _ := tokens.UnmarshalTokenChallenge(b); return q }},
			{"type5.Request.Unmarshal(4000 elements)", req5, func(b []byte) any { q := &type5.BatchedPrivateTokenRequest{}; q.Unmarshal(b); return q }},
		} {
			in := p.in
			runtime.GC()
			runtime.ReadMemStats(&ms)
			a0, h0 := ms.TotalAlloc, ms.HeapAlloc
			var keep any
			out := c.Op("c03.probe "+strings.ReplaceAll(p.name, " ", "_")+" len="+strconv.Itoa(len(in)), func() string { keep = p.call(in); return "-" })
			runtime.ReadMemStats(&ms)
			alloc := ms.TotalAlloc - a0
			runtime.GC()
			runtime.ReadMemStats(&ms)
			var held uint64
			if ms.HeapAlloc > h0 {
				held = ms.HeapAlloc - h0
			}
			runtime.KeepAlive(keep)
			inp := map[string]any{"entry": p.name, "input_len": len(in), "allocated": alloc, "retained": held}
			c.Count("large-list-decode")
			c.Direct(out == "-", "panic on a long list", inp)
			c.Direct(alloc <= 1<<20+64*uint64(len(in)), fmt.Sprintf("decoding %d bytes allocated %d bytes", len(in), alloc), inp)
			c.Direct(held <= 1<<20+32*uint64(len(in)), fmt.Sprintf("decoding %d bytes keeps %d bytes alive", len(in), held), inp)
		}
	}
	// crafted type-3 requests (well sealed and signed) around unusual inner plaintexts
	{
		cl := newT3Client(r)
		bm := r.Bytes(256)
		bm[0] = 0
		for _, pt := range [][]byte{{}, bm[:100], append([]byte{1}, bm...), append(append([]byte{1}, bm...), 0, 0), append(append([]byte{1}, bm...), 0, 1, 0),
			append(append([]byte{1}, bm...), 0, 32), append(append(append([]byte{1}, bm...), 0, 32), make([]byte, 32)...), append(append([]byte{1}, bm...), 0xff, 0xff)} {
			req := craftRequest(w.env, cl, pt)
			out := c.Op("c03.probe type3.Issuer.Evaluate(crafted-inner) "+hx(req), func() string {
				w.env.issuer.Evaluate(req)
				return "-"
			})
			c.Direct(out == "-", "panic on a well-sealed request with an unusual inner plaintext", map[string]any{"inner": hx(pt), "request": hx(req), "panic": firstLines(lastPanic, 10)})
		}
	}
	// type-5 requests carrying element counts on both sides of the length prefix's size classes (the decoder accepts any count)
	{
		honest := w.resp["req5"]
		// type(2) key id(1) varint length, then 32-byte elements
		_, off := quicwire.ConsumeVarint(honest[3:])
		el := honest[3+off : 3+off+32]
		for _, n := range []int{0, 1, 2, 3, 63, 64, 511, 512, 513, 1024} {
			if !c.Thorough() && n > 513 {
				continue
			}
			req := append([]byte{}, honest[:3]...)
			req = quicwire.AppendVarint(req, uint64(32*n))
			for k := 0; k < n; k++ {
				req = append(req, el...)
			}
			out := c.Op(fmt.Sprintf("c03.probe type5.Request.Unmarshal+Evaluate(%d-elements) %s", n, hx(req[:8])), func() string {
				q := &type5.BatchedPrivateTokenRequest{}
				if q.Unmarshal(req) {
					w.i5.Evaluate(q)
				}
				return "-"
			})
			c.Count("t5-element-count")
			c.Direct(out == "-", fmt.Sprintf("panic on a type-5 request with %d valid elements", n), map[string]any{"elements": n, "element": hx(el), "panic": firstLines(lastPanic, 10)})
		}
	}
	// correctly sealed type-3 requests whose request key is not a point, or whose signature halves sit on the range boundaries
	{
		cl := newT3Client(r)
		cr := c07Crafted(w.env, cl, r, "origin.example")
		var ks []string
		for k := range cr {
			ks = append(ks, k)
		}
		sort.Strings(ks)
		for _, k := range ks {
			req := cr[k]
			out := c.Op("c03.probe type3.Issuer.Evaluate("+k+") "+hx(req), func() string {
				w.env.issuer.Evaluate(req)
				return "-"
			})
			c.Count("t3-crafted")
			c.Direct(out == "-", "panic on a well-sealed type-3 request ("+k+")", map[string]any{"request": hx(req), "panic": firstLines(lastPanic, 10)})
		}
	}
	// signature scalars on and around the range boundaries, on every curve and through every verifier a peer reaches
	{
		for _, cn := range curveNames {
			cv := curves[cn]
			N, P := cv.Params().N, cv.Params().P
			sz := (cv.Params().BitSize + 7) / 8
			sk, _ := ecdsa.CreateKey(cv, r.Bytes(sz-1))
			one := big.NewInt(1)
			vals := []*big.Int{big.NewInt(0), one, new(big.Int).Sub(N, one), N, new(big.Int).Add(N, one), new(big.Int).Lsh(N, 1), P,
				new(big.Int).Sub(new(big.Int).Lsh(one, uint(8*sz)), one), new(big.Int).Neg(one), new(big.Int).Neg(N)}
			digest := r.Bytes(sz)
			for _, x := range vals {
				for _, y := range vals {
					out := c.Op(fmt.Sprintf("c03.probe ecdsa.Verify(boundary) %s %s %s", cn, bigHex(x), bigHex(y)), func() string {
						ecdsa.Verify(&sk.PublicKey, digest, x, y)
						if x.Sign() >= 0 && y.Sign() >= 0 {
							ecdsa.VerifyASN1(&sk.PublicKey, digest, derSeq(append(derInt(x), derInt(y)...)))
						}
						return "-"
					})
					c.Count("sig-boundary:" + cn)
					c.Direct(out == "-", "panic on a signature with boundary scalars", map[string]any{"curve": cn, "r": bigHex(x), "s": bigHex(y), "panic": firstLines(lastPanic, 10)})
					if cn != "P-384" || x.Sign() < 0 || y.Sign() < 0 || x.BitLen() > 384 || y.BitLen() > 384 {
						continue
					}
					sig := append(x.FillBytes(make([]byte, 48)), y.FillBytes(make([]byte, 48))...)
					req := append(append([]byte{}, w.resp["req3"][:len(w.resp["req3"])-96]...), sig...)
					out = c.Op("c03.probe type3.VerifyRequest+Evaluate(boundary-signature) "+hx(sig), func() string {
						q := *w.st3.Request()
						q.Signature = sig
						type3.NewRateLimitedAttester(newMemCache()).VerifyRequest(q, w.cl3.blind, w.cl3.pubEnc, nil)
						w.env.issuer.Evaluate(req)
						return "-"
					})
					c.Direct(out == "-", "panic on a type-3 request whose signature has boundary scalars", map[string]any{"signature": hx(sig), "panic": firstLines(lastPanic, 10)})
				}
			}
		}
	}
	// an attester that has refused an index computation keeps answering (no call waits for ever on what a refused one left behind)
	{
		cw := newC09World(r, 2, 2, 4)
		out := c.Op("c03.probe type3.Attester(after-a-refused-FinalizeIndex)", func() string {
			done := make(chan string, 1)
			go func() {
				att := type3.NewRateLimitedAttester(newMemCache())
				x, y := cw.clients[0], cw.clients[1]
				att.VerifyRequest(x.request, x.blind, x.pubEnc, cw.anons[1])
				att.FinalizeIndex(x.pubEnc, x.blind, cw.blinded[[2]int{0, 0}], cw.anons[1])
				_, err := att.FinalizeIndex(x.pubEnc, x.blind, cw.blinded[[2]int{0, 0}], cw.anons[3])
				if err == nil {
					done <- "a colliding index computation was not refused"
					return
				}
				att.FinalizeIndex(x.pubEnc, []byte{1}, []byte{2}, cw.anons[1]) // malformed: another error path
				att.VerifyRequest(y.request, x.blind, y.pubEnc, cw.anons[1])   // refused: wrong blind
				if att.VerifyRequest(y.request, y.blind, y.pubEnc, cw.anons[1]) != nil {
					done <- "an honest request of another client is refused afterwards"
					return
				}
				if _, err := att.FinalizeIndex(y.pubEnc, y.blind, cw.blinded[[2]int{1, 1}], cw.anons[1]); err != nil {
					done <- "an honest index computation of another client is refused afterwards"
					return
				}
				done <- "-"
			}()
			select {
			case v := <-done:
				return v
			case <-time.After(15 * time.Second):
				return "the attester stopped answering after a refused call (no answer within 15 s)"
			}
		})
		c.Direct(out == "-", "attester after refused calls: "+out, map[string]any{"panic": firstLines(lastPanic, 6)})
	}
	// client finalization under every HPKE suite a name key may announce, for every short response
	{
		nk := w.env.issuer.NameKey().Marshal()
		for _, kdf := range []byte{1, 2, 3} {
			for _, aead := range []byte{1, 2, 3} {
				pub := append(append([]byte{}, nk[:35]...), 0, kdf, 0, aead)
				ek, err := type3.UnmarshalEncapKey(pub)
				if err != nil {
					continue
				}
				st, err := type3.NewRateLimitedClientFromSecret(w.cl3.secret).CreateTokenRequest([]byte("c"), bytes.Repeat([]byte{3}, 32), w.cl3.blind,
					w.env.issuer.TokenKeyID(), w.env.issuer.TokenKey(), "origin.example", ek)
				if err != nil {
					continue
				}
				for n := 0; n <= 80; n++ {
					resp := r.Bytes(n)
					resp = resp[:n:n]
					out := c.Op(fmt.Sprintf("c03.probe type3.FinalizeToken(kdf=%d,aead=%d) %s", kdf, aead, hx(resp)), func() string {
						st.FinalizeToken(resp)
						return "-"
					})
					c.Count("finalize3:suites")
					c.Direct(out == "-", "panic in type-3 FinalizeToken on a short response", map[string]any{"kdf": kdf, "aead": aead, "response": hx(resp), "panic": firstLines(lastPanic, 8)})
				}
			}
		}
	}
	// ---- literal models: outcome and value compared with the Lean model ----
	for _, in := range c03Mutations(r, w.resp["req5"], c.Pick(300, 5000), c.Thorough()) {
		c.Run("c03.req5", hx(in))
	}
	for _, in := range c03Mutations(r, w.resp["batch"], c.Pick(300, 5000), c.Thorough()) {
		c.Run("c03.batch", hx(in))
	}
	for _, in := range c03Mutations(r, w.resp["batchresp"], c.Pick(300, 5000), c.Thorough()) {
		c.Run("c03.batchresp", hx(in))
	}
	for i := 0; i < c.Pick(200, 3000); i++ {
		b := r.Bytes(r.IntN(70))
		for k := r.IntN(len(b) + 1); k > 0; k-- {
			b[len(b)-k] = 0
		}
		c.Run("c03.unpad", hx(b))
	}
	// finalize with dependency verdicts as oracle columns
	for _, in := range c03Mutations(r, w.resp["resp1"], c.Pick(200, 3000), c.Thorough()) {
		elemOk, proofOk, finOk := false, false, false
		if len(in) >= 49 {
			elemOk = group.P384.NewElement().UnmarshalBinary(in[:49]) == nil
			proofOk = new(dleq.Proof).UnmarshalBinary(group.P384, in[49:]) == nil
			if elemOk && proofOk {
				_, err := w.st1.FinalizeToken(in)
				finOk = err == nil
			}
		}
		c.Run("c03.t1fin", hx(in), b2s(elemOk), b2s(proofOk), b2s(finOk))
	}
	for _, in := range c03Mutations(r, w.resp["resp5"], c.Pick(200, 3000), c.Thorough()) {
		// element / proof decodability and finalize verdict from circl, computed on an independent split
		v, n := quicwire.ConsumeVarint(in)
		elemOk, proofOk, finOk := true, false, false
		if n >= 0 && v <= uint64(len(in)-n) && v%32 == 0 {
			body := in[n : n+int(v)]
			for k := 0; k+32 <= len(body); k += 32 {
				if group.Ristretto255.NewElement().UnmarshalBinary(body[k:k+32]) != nil {
					elemOk = false
				}
			}
			rest := in[n+int(v):]
			if len(rest) >= 64 {
				pr := new(dleq.Proof)
				if pr.UnmarshalBinary(group.Ristretto255, rest[:64]) == nil {
					canon, err := pr.MarshalBinary()
					proofOk = err == nil && bytes.Equal(canon, rest[:64]) // canonical encodings only
				}
			}
			if elemOk && proofOk && int(v)/32 == 3 {
				_, err := w.st5.FinalizeTokens(in)
				finOk = err == nil
			}
		}
		c.Run("c03.t5fin", hx(in), b2s(elemOk), b2s(proofOk), b2s(finOk))
	}
}

func firstLines(s string, n int) string {
	ls := strings.Split(s, "\n")
	if len(ls) > n {
		ls = ls[:n]
	}
	return strings.Join(ls, "\n")
}
