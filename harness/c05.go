package main

import (
	"bytes"
	"crypto"
	"crypto/rsa"
	"crypto/sha512"
	"errors"
	"fmt"
	"strconv"
	"strings"

	"github.com/cloudflare/circl/oprf"
	"github.com/cloudflare/pat-go/tokens"
	"github.com/cloudflare/pat-go/tokens/batched"
	"github.com/cloudflare/pat-go/tokens/type1"
	"github.com/cloudflare/pat-go/tokens/type2"
)

// adIssuer adapts a per-type issuer to batched.Issuer. Evaluation re-keys the crypto/rand
// replacement from the request bytes, so the batch path and a direct call give identical bytes.
type adIssuer struct {
	name  string
	ty    uint16
	keyID []byte
	eval  func(tokens.TokenRequest) ([]byte, error)
	seed  uint64
	i1    *type1.BasicPrivateIssuer
	i2    *type2.BasicPublicIssuer
}

func (a *adIssuer) Evaluate(req tokens.TokenRequest) ([]byte, error) {
	reseedRand(a.seed, "c05:"+a.name+":"+hxv(req.Marshal()))
	return a.eval(req)
}
func (a *adIssuer) TokenKeyID() []byte { return a.keyID }
func (a *adIssuer) Type() uint16       { return a.ty }

func newAd1(seed uint64, name string, keySeed []byte) *adIssuer {
	iss := type1.NewBasicPrivateIssuer(oprfKey(oprf.SuiteP384, keySeed))
	return &adIssuer{name: name, ty: type1.BasicPrivateTokenType, keyID: iss.TokenKeyID(), seed: seed, i1: iss,
		eval: func(r tokens.TokenRequest) ([]byte, error) {
			q, ok := r.(*type1.BasicPrivateTokenRequest)
			if !ok {
				return nil, errors.New("wrong request type")
			}
			return iss.Evaluate(q)
		}}
}

func newAd2(seed uint64, name string, keyIdx int) *adIssuer {
	iss := type2.NewBasicPublicIssuer(rsaKey(keyIdx))
	return &adIssuer{name: name, ty: type2.BasicPublicTokenType, keyID: iss.TokenKeyID(), seed: seed, i2: iss,
		eval: func(r tokens.TokenRequest) ([]byte, error) {
			q, ok := r.(*type2.BasicPublicTokenRequest)
			if !ok {
				return nil, errors.New("wrong request type")
			}
			return iss.Evaluate(q)
		}}
}

// c05Registry: the issuers a configuration can name.
//
//	1a 1b   type-1 issuers with different keys        2a 2b  type-2 issuers
//	1a~     key of 1b, key id forced to end like 1a's (collision: evaluates under the wrong key)
//	1x 2x   issuers whose evaluation always fails, key ids ending like 1a's / 2a's
func c05Registry(seed uint64) map[string]*adIssuer {
	reg := map[string]*adIssuer{}
	reg["1a"] = newAd1(seed, "1a", []byte("c05-key-1a"))
	reg["1b"] = newAd1(seed, "1b", []byte("c05-key-1b"))
	reg["2a"] = newAd2(seed, "2a", 0)
	reg["2b"] = newAd2(seed, "2b", 1)
	tw := newAd1(seed, "1a~", []byte("c05-key-1b"))
	tw.keyID = append(append([]byte{}, tw.keyID[:31]...), reg["1a"].keyID[31])
	reg["1a~"] = tw
	reg["1x"] = &adIssuer{name: "1x", ty: 1, keyID: reg["1a"].keyID, seed: seed, eval: func(tokens.TokenRequest) ([]byte, error) { return nil, errors.New("fail") }}
	reg["2x"] = &adIssuer{name: "2x", ty: 2, keyID: reg["2a"].keyID, seed: seed, eval: func(tokens.TokenRequest) ([]byte, error) { return nil, errors.New("fail") }}
	return reg
}

var c05reg map[string]*adIssuer
var c05regSeed uint64 = ^uint64(0)

func getC05Reg(seed uint64) map[string]*adIssuer {
	if c05reg == nil || c05regSeed != seed {
		c05reg = c05Registry(seed)
		c05regSeed = seed
	}
	return c05reg
}

func init() {
	props["C05"] = runC05
	// c05.batch <cfg: ty:kid:name,...> <reqs: ty:kid:hex,...> <oracle matrix (model only)>
	replayers["c05.batch"] = func(c *Ctx, a []string) string {
		reg := getC05Reg(c.Seed)
		var iss []batched.Issuer
		if a[0] != "none" {
			for _, e := range strings.Split(a[0], ",") {
				iss = append(iss, reg[strings.SplitN(e, ":", 3)[2]])
			}
		}
		var reqs []tokens.TokenRequestWithDetails
		for _, s := range strings.Split(a[1], ",") {
			reqs = append(reqs, parseReqWD(s))
		}
		br, err := batched.NewBasicClient().CreateTokenRequest(reqs)
		if err != nil {
			return "err"
		}
		// the request crosses the wire
		wire := &batched.BatchedTokenRequest{}
		if !wire.Unmarshal(br.Marshal()) {
			return "err-unmarshal"
		}
		// one batch issuer per configuration for the whole run: a batch must not depend on the batches before it
		bi, ok := c05issuers[a[0]]
		if !ok {
			bi = batched.NewBasicBatchedIssuer(iss...)
			c05issuers[a[0]] = bi
		}
		// the caller's issuer list is its own to reuse once the batch issuer exists
		for i := range iss {
			iss[i] = nil
		}
		out, err := bi.EvaluateBatch(wire)
		if err != nil {
			return "err"
		}
		rs, err := batched.UnmarshalBatchedTokenResponses(out)
		if err != nil {
			return "ok " + hxv(out) + " | decode-err"
		}
		return "ok " + hxv(out) + " | " + hxList(rs)
	}
}

var c05issuers = map[string]*batched.BasicBatchedIssuer{}

type c05Req struct {
	kind   string // K U M T
	req    tokens.TokenRequestWithDetails
	st1    *type1.BasicPrivateTokenRequestState
	st2    *type2.BasicPublicTokenRequestState
	target *adIssuer
}

func runC05(c *Ctx) {
	r := NewRng(c.Seed, "c05")
	reg := getC05Reg(c.Seed)
	cfgs := [][]string{{"1a", "2a"}, {"1a"}, {"2a"}, {"1a", "1b", "2a", "2b"}, {"2b", "1b"}, {"1x", "1a", "2x", "2a"}, {"1a", "1a~"}, {"1a~", "1a", "2a"}, {}, {"1a", "2a", "1b"}, {"2a", "1a", "2b", "1b"}, {"1b", "2b", "1a", "2a", "1x"}}
	distinct := []bool{true, true, true, true, true, false, false, false, true, true, true, false}

	mkReq := func(kind string, ty int, target *adIssuer) c05Req {
		q := c05Req{kind: kind, target: target}
		reseedRand(c.Seed, fmt.Sprintf("c05-req-%d", r.Uint32()))
		challenge, nonce := r.Bytes(r.IntN(40)), r.Bytes(32)
		if ty == 1 {
			st, err := type1.NewBasicPrivateClient().CreateTokenRequest(challenge, nonce, target.keyID, target.i1.TokenKey())
			must(err)
			q.st1 = &st
			rq := st.Request()
			switch kind {
			case "U":
				rq = &type1.BasicPrivateTokenRequest{TokenKeyID: rq.TokenKeyID ^ 0x5a, BlindedReq: rq.BlindedReq}
			case "M":
				rq = &type1.BasicPrivateTokenRequest{TokenKeyID: rq.TokenKeyID, BlindedReq: bytes.Repeat([]byte{0xff}, 49)}
			}
			q.req = rq
		} else {
			st, err := type2.NewBasicPublicClient().CreateTokenRequest(challenge, nonce, target.keyID, target.i2.TokenKey())
			must(err)
			q.st2 = &st
			rq := st.Request()
			switch kind {
			case "U":
				rq = &type2.BasicPublicTokenRequest{TokenKeyID: rq.TokenKeyID ^ 0x5a, BlindedReq: rq.BlindedReq}
			case "M":
				rq = &type2.BasicPublicTokenRequest{TokenKeyID: rq.TokenKeyID, BlindedReq: bytes.Repeat([]byte{0xff}, 256)}
			}
			q.req = rq
		}
		return q
	}

	runBatch := func(ci int, reqs []c05Req) {
		cfg := cfgs[ci]
		var cfgS, reqS, evalS []string
		var iss []*adIssuer
		for _, n := range cfg {
			a := reg[n]
			iss = append(iss, a)
			cfgS = append(cfgS, fmt.Sprintf("%d:%d:%s", a.ty, a.keyID[len(a.keyID)-1], n))
		}
		// oracle matrix: for each request, the outcome of every matching configured issuer (called directly)
		expectPresent := make([]bool, len(reqs))
		firstOK := make([][]byte, len(reqs))
		for k, q := range reqs {
			reqS = append(reqS, fmtReqWD(q.req))
			var es []string
			for j, a := range iss {
				if a.ty != q.req.Type() || a.keyID[len(a.keyID)-1] != q.req.TruncatedTokenKeyID() {
					continue
				}
				resp, err := a.Evaluate(q.req)
				if err != nil {
					es = append(es, fmt.Sprintf("%d=err", j))
				} else {
					es = append(es, fmt.Sprintf("%d=%s", j, hxv(resp)))
					if !expectPresent[k] {
						firstOK[k] = resp
					}
					expectPresent[k] = true
				}
			}
			if len(es) == 0 {
				evalS = append(evalS, "-")
			} else {
				evalS = append(evalS, strings.Join(es, ","))
			}
		}
		cfgArg := strings.Join(cfgS, ",")
		if cfgArg == "" {
			cfgArg = "none"
		}
		out := c.Run("c05.batch", cfgArg, strings.Join(reqS, ","), strings.Join(evalS, ";"))
		var kinds []string
		for _, q := range reqs {
			kinds = append(kinds, q.kind+strconv.Itoa(int(q.req.Type())))
		}
		c.Count(fmt.Sprintf("cfg%d/n=%d", ci, len(reqs)))
		for _, k := range kinds {
			c.Count("req:" + k)
		}
		// ---- direct oracles on the implementation's output ----
		in := map[string]any{"cfg": cfgArg, "kinds": strings.Join(kinds, ","), "reqs": strings.Join(reqS, ",")}
		parts := strings.SplitN(out, " | ", 2)
		if len(parts) != 2 || parts[1] == "decode-err" {
			c.Direct(false, "batch response does not decode (all entries lost)", in)
			return
		}
		ents := unhxList(parts[1])
		if !c.DirectOK(len(ents) == len(reqs), "decoded response list does not have one entry per request", in) {
			return
		}
		for k, q := range reqs {
			present := len(ents[k]) > 0
			c.Direct(present == expectPresent[k], fmt.Sprintf("entry %d present=%v but a configured issuer of that type and key id evaluates it successfully=%v", k, present, expectPresent[k]), in)
			if present && expectPresent[k] {
				c.Direct(bytes.Equal(ents[k], firstOK[k]), fmt.Sprintf("entry %d is not the response of the first configured issuer of that type and key id that evaluates it successfully", k), in)
			}
			if present && distinct[ci] && q.kind == "K" {
				// finalizes under its own request's state to a valid token
				ok := false
				if q.st1 != nil {
					tok, err := q.st1.FinalizeToken(ents[k])
					ok = err == nil && q.target.i1.Verify(tok) == nil
				} else {
					tok, err := q.st2.FinalizeToken(ents[k])
					if err == nil {
						h := sha512.Sum384(tok.AuthenticatorInput())
						ok = rsa.VerifyPSS(q.target.i2.TokenKey(), crypto.SHA384, h[:], tok.Authenticator, &rsa.PSSOptions{Hash: crypto.SHA384, SaltLength: 48}) == nil
					}
				}
				c.Direct(ok, fmt.Sprintf("present entry %d does not finalize to a valid token under its own request's state", k), in)
			}
		}
	}

	// every composition over {type1, type2} x {K, U, M} (T arises from configurations lacking the type)
	var atoms [][2]string
	for _, ty := range []string{"1", "2"} {
		for _, k := range []string{"K", "U", "M"} {
			atoms = append(atoms, [2]string{ty, k})
		}
	}
	maxLen := c.Pick(3, 4)
	var comps [][][2]string
	var rec func(pre [][2]string, d int)
	rec = func(pre [][2]string, d int) {
		if len(pre) > 0 {
			comps = append(comps, append([][2]string{}, pre...))
		}
		if d == 0 {
			return
		}
		for _, a := range atoms {
			rec(append(pre, a), d-1)
		}
	}
	rec(nil, maxLen)
	c.notes["compositions"] = len(comps)
	c.notes["configurations"] = len(cfgs)
	for ci := range cfgs {
		if !c.Thorough() && ci >= 4 && ci != 5 && ci != 6 && ci != 9 && ci != 10 {
			continue
		}
		for _, comp := range comps {
			if (!c.Thorough() && len(comp) >= 2 && r.IntN(3) != 0) || (c.Thorough() && len(comp) == 4 && r.IntN(4) != 0) {
				continue
			}
			var reqs []c05Req
			for _, a := range comp {
				ty := int(a[0][0] - '0')
				// target: an issuer of that type, preferably one in the configuration
				tname := a[0] + "a"
				for _, n := range cfgs[ci] {
					if strings.HasPrefix(n, a[0]) && !strings.HasSuffix(n, "x") && !strings.HasSuffix(n, "~") && r.Bool() {
						tname = n
					}
				}
				kind := a[1]
				q := mkReq(kind, ty, reg[tname])
				if kind == "K" {
					has := false
					for _, n := range cfgs[ci] {
						if n == tname {
							has = true
						}
					}
					if !has {
						q.kind = "T"
					}
				}
				reqs = append(reqs, q)
			}
			runBatch(ci, reqs)
		}
	}
	// response lists whose encoded length sits on a boundary of the length prefix's size classes (63|64, 16383|16384):
	// sizes are 1 byte per absent entry, 148 per type-1 response, 259 per type-2 response
	type shape struct{ n1, n2, absent int }
	shapes := []shape{{0, 0, 63}, {0, 0, 64}, {0, 63, 66}, {0, 63, 67}}
	if c.Thorough() {
		shapes = append(shapes, shape{0, 63, 68}, shape{100, 6, 29}, shape{100, 6, 30}, shape{100, 6, 31}, shape{110, 0, 103}, shape{110, 0, 104})
	}
	for _, sh := range shapes {
		var reqs []c05Req
		for k := 0; k < sh.n1; k++ {
			reqs = append(reqs, mkReq("K", 1, reg["1a"]))
		}
		for k := 0; k < sh.n2; k++ {
			reqs = append(reqs, mkReq("K", 2, reg["2a"]))
		}
		for k := 0; k < sh.absent; k++ {
			reqs = append(reqs, mkReq("U", 1+k%2, reg[[]string{"1a", "2a"}[k%2]]))
		}
		// absent entries spread through the list, not all at the end
		for k := len(reqs) - 1; k > 0; k-- {
			j := r.IntN(k + 1)
			reqs[k], reqs[j] = reqs[j], reqs[k]
		}
		c.Count(fmt.Sprintf("list-length=%d", sh.n1*148+sh.n2*259+sh.absent))
		runBatch(0, reqs)
	}
	// longer random batches
	for i := 0; i < c.Pick(20, 400); i++ {
		ci := r.IntN(len(cfgs))
		n := 4 + r.IntN(5)
		var reqs []c05Req
		for k := 0; k < n; k++ {
			a := atoms[r.IntN(len(atoms))]
			ty := int(a[0][0] - '0')
			tn := a[0] + []string{"a", "b"}[r.IntN(2)]
			q := mkReq(a[1], ty, reg[tn])
			if a[1] == "K" {
				has := false
				for _, nme := range cfgs[ci] {
					if nme == tn {
						has = true
					}
				}
				if !has {
					q.kind = "T"
				}
			}
			reqs = append(reqs, q)
		}
		// occasionally the same request twice
		if r.IntN(4) == 0 {
			reqs = append(reqs, reqs[0])
		}
		runBatch(ci, reqs)
	}
}
